"""Python front end: stdlib ast + module symbol tables + class table (C3 MRO) +
a constant evaluator (constant folding through table-building helpers).

Nothing under /repo is imported.  The evaluator folds *initialiser code* only
(dict/list displays, comprehensions, enum bodies, small pure helper functions that
build tables such as `_build_pre_tables`); it has a step budget and refuses
anything with side effects outside its own frame (-> NotConst)."""
from __future__ import annotations

import ast
import operator
from dataclasses import dataclass, field
from pathlib import Path
from typing import Any, Iterator

from .core import REPO, AnalysisError

PY_DIRS = ["sc62015", "pce500", "scripts", "tools"]


class NotConst(Exception):
    pass


@dataclass(frozen=True)
class ClassRef:
    module: str
    name: str

    def __repr__(self) -> str:
        return f"<class {self.name}>"


@dataclass(frozen=True)
class FuncRef:
    module: str
    name: str


@dataclass(frozen=True)
class EnumMember:
    cls: str
    name: str
    value: Any

    def __repr__(self) -> str:
        return f"{self.cls}.{self.name}"

    # IntEnum-like behaviour for folding
    def __int__(self) -> int:
        return int(self.value)

    def __index__(self) -> int:
        return int(self.value)


@dataclass
class Term:
    """An un-run constructor call of a repo (or third-party) class: the *shape*."""
    ctor: str
    args: tuple
    kwargs: dict
    ln: int = 0

    def __repr__(self) -> str:
        parts = [repr(a) for a in self.args] + [f"{k}={v!r}" for k, v in self.kwargs.items()]
        return f"{self.ctor}({', '.join(parts)})"

    def __hash__(self) -> int:
        return hash((self.ctor, repr(self.args), repr(sorted(self.kwargs.items()))))

    def __eq__(self, o: object) -> bool:
        return isinstance(o, Term) and repr(self) == repr(o)


class PyModule:
    def __init__(self, prog: "PyProgram", rel: str, dotted: str, tree: ast.Module, text: str):
        self.prog = prog
        self.rel = rel
        self.dotted = dotted
        self.tree = tree
        self.text = text
        self.symbols: dict[str, list[ast.AST]] = {}
        self.star_imports: list[str] = []
        self.imports: dict[str, tuple[str, str | None]] = {}  # local name -> (module, attr)
        self._collect(tree.body)

    def _resolve_rel(self, module: str | None, level: int) -> str:
        if level == 0:
            return module or ""
        parts = self.dotted.split(".")
        is_pkg = self.rel.endswith("__init__.py")
        base = parts if is_pkg else parts[:-1]
        if level > 1:
            base = base[: len(base) - (level - 1)]
        return ".".join(base + ([module] if module else []))

    def _collect(self, body: list[ast.stmt]) -> None:
        for st in body:
            if isinstance(st, (ast.FunctionDef, ast.AsyncFunctionDef, ast.ClassDef)):
                self.symbols.setdefault(st.name, []).append(st)
            elif isinstance(st, ast.Assign):
                for t in st.targets:
                    for n in _target_names(t):
                        self.symbols.setdefault(n, []).append(st)
            elif isinstance(st, ast.AnnAssign) and isinstance(st.target, ast.Name):
                if st.value is not None:
                    self.symbols.setdefault(st.target.id, []).append(st)
            elif isinstance(st, ast.ImportFrom):
                mod = self._resolve_rel(st.module, st.level)
                for a in st.names:
                    if a.name == "*":
                        self.star_imports.append(mod)
                    else:
                        self.imports[a.asname or a.name] = (mod, a.name)
            elif isinstance(st, ast.Import):
                for a in st.names:
                    self.imports[a.asname or a.name.split(".")[0]] = (a.name, None)
            elif isinstance(st, (ast.If, ast.Try)):
                # conservative: collect both branches (used for TYPE_CHECKING / fallbacks)
                for sub in ast.iter_child_nodes(st):
                    if isinstance(sub, ast.stmt):
                        self._collect([sub])
                    elif isinstance(sub, ast.ExceptHandler):
                        self._collect(sub.body)

    def functions(self) -> Iterator[tuple[str, ast.FunctionDef]]:
        """(qualname, node) of every function incl. methods and nested defs."""
        def rec(body: list[ast.stmt], prefix: str) -> Iterator[tuple[str, ast.FunctionDef]]:
            for st in body:
                if isinstance(st, (ast.FunctionDef, ast.AsyncFunctionDef)):
                    yield prefix + st.name, st
                    yield from rec(st.body, prefix + st.name + ".")
                elif isinstance(st, ast.ClassDef):
                    yield from rec(st.body, prefix + st.name + ".")
                elif isinstance(st, (ast.If, ast.Try, ast.With, ast.For, ast.While)):
                    for sub in ast.walk(st):
                        if sub is not st and isinstance(sub, (ast.FunctionDef, ast.AsyncFunctionDef)):
                            yield prefix + sub.name, sub
        yield from rec(self.tree.body, "")


def _target_names(t: ast.AST) -> list[str]:
    if isinstance(t, ast.Name):
        return [t.id]
    if isinstance(t, (ast.Tuple, ast.List)):
        out: list[str] = []
        for e in t.elts:
            out += _target_names(e)
        return out
    return []


class PyClass:
    def __init__(self, mod: PyModule, node: ast.ClassDef):
        self.mod = mod
        self.node = node
        self.name = node.name
        self.methods: dict[str, ast.FunctionDef] = {}
        self.attrs: dict[str, ast.AST] = {}
        for st in node.body:
            if isinstance(st, (ast.FunctionDef, ast.AsyncFunctionDef)):
                self.methods[st.name] = st
            elif isinstance(st, ast.Assign):
                for t in st.targets:
                    if isinstance(t, ast.Name):
                        self.attrs[t.id] = st.value
            elif isinstance(st, ast.AnnAssign) and isinstance(st.target, ast.Name) and st.value is not None:
                self.attrs[st.target.id] = st.value
        self.base_names: list[str] = []
        for b in node.bases:
            if isinstance(b, ast.Name):
                self.base_names.append(b.id)
            elif isinstance(b, ast.Attribute):
                self.base_names.append(b.attr)
            elif isinstance(b, ast.Subscript) and isinstance(b.value, ast.Name):
                self.base_names.append(b.value.id)
        self.mro: list["PyClass"] = []

    @property
    def where(self) -> str:
        return f"{self.mod.rel}:{self.node.lineno}"

    def find_method(self, name: str) -> tuple["PyClass", ast.FunctionDef] | None:
        for c in self.mro:
            if name in c.methods:
                return c, c.methods[name]
        return None

    def find_attr(self, name: str) -> tuple["PyClass", ast.AST] | None:
        for c in self.mro:
            if name in c.attrs:
                return c, c.attrs[name]
        return None

    def is_subclass_of(self, name: str) -> bool:
        return any(c.name == name for c in self.mro) or name in self.ext_bases()

    def ext_bases(self) -> set[str]:
        out = set()
        for c in self.mro:
            for b in c.base_names:
                out.add(b)
        return out


def _simple(e: ast.AST) -> bool:
    """No call, no subscript, no await/yield anywhere inside: evaluating it has no effect and cannot be affected by another call."""
    return not any(isinstance(x, (ast.Call, ast.Subscript, ast.Await, ast.Yield, ast.YieldFrom, ast.NamedExpr, ast.Lambda, ast.ListComp, ast.SetComp, ast.DictComp, ast.GeneratorExp, ast.IfExp, ast.BoolOp)) for x in ast.walk(e))


def _fold_into(st: ast.stmt, t: str, value: ast.expr) -> bool:
    """Fold `t = value` into the next statement when `t` is used there exactly once as a call argument (or the call's only
    positional argument of an expression statement / assignment / return) and everything Python evaluates before that argument in the
    statement is simple - so `value` is still evaluated first and the order of effects is unchanged."""
    root: ast.expr | None = None
    if isinstance(st, ast.Expr):
        root = st.value
    elif isinstance(st, ast.Assign) and len(st.targets) == 1 and _simple(st.targets[0]) is not None:
        root = st.value        # the right-hand side is evaluated before the targets
    elif isinstance(st, ast.Return):
        root = st.value
    if not isinstance(root, ast.Call):
        return False
    call = root
    if not _simple(call.func):
        return False
    slots: list[tuple[list, int] | tuple[ast.keyword, None]] = []
    for i, a_ in enumerate(call.args):
        if isinstance(a_, ast.Starred):
            return False
        if isinstance(a_, ast.Name) and a_.id == t:
            if not all(_simple(x) for x in call.args[:i]):
                return False
            rest = list(call.args[i + 1:]) + [k.value for k in call.keywords]
            if any(isinstance(x, ast.Name) and x.id == t for r_ in rest for x in ast.walk(r_)):
                return False
            call.args[i] = value
            return True
    for j, k in enumerate(call.keywords):
        if k.arg is not None and isinstance(k.value, ast.Name) and k.value.id == t:
            if not all(_simple(x) for x in call.args) or not all(_simple(q.value) for q in call.keywords[:j]):
                return False
            k.value = value
            return True
    return False


def canon_temps(tree: ast.Module) -> int:
    """Canonical form used by every rule: a local that only carries a value into the very next statement is folded away -
    `t = E; return t` -> `return E`, `t = E; <targets> = t` -> `<targets> = E` - when `t` has no other use in its function.  Both forms
    evaluate E first and do nothing else in between, so this is behaviour-preserving; it makes the rules insensitive to whether the
    author named an intermediate value.  Returns the number of folds."""
    folds = 0
    for fn in [n for n in ast.walk(tree) if isinstance(n, (ast.FunctionDef, ast.AsyncFunctionDef))]:
        while True:
            uses: dict[str, list[int]] = {}
            for n in ast.walk(fn):
                if isinstance(n, ast.Name):
                    u = uses.setdefault(n.id, [0, 0])
                    u[0 if isinstance(n.ctx, ast.Load) else 1] += 1
                elif isinstance(n, (ast.Global, ast.Nonlocal)):
                    for nm in n.names:
                        uses.setdefault(nm, [0, 0])[1] += 5
            done = False
            for holder in ast.walk(fn):
                for field in ("body", "orelse", "finalbody"):
                    blk = getattr(holder, field, None)
                    if not (isinstance(blk, list) and blk and isinstance(blk[0], ast.stmt)):
                        continue
                    for i in range(len(blk) - 1):
                        a, b = blk[i], blk[i + 1]
                        if not (isinstance(a, ast.Assign) and len(a.targets) == 1 and isinstance(a.targets[0], ast.Name)):
                            continue
                        t = a.targets[0].id
                        if uses.get(t) != [1, 1] or any(isinstance(x, (ast.Yield, ast.YieldFrom, ast.Await, ast.NamedExpr)) for x in ast.walk(a.value)):
                            continue
                        if isinstance(b, ast.Return) and isinstance(b.value, ast.Name) and b.value.id == t:
                            b.value = a.value
                        elif isinstance(b, ast.Assign) and isinstance(b.value, ast.Name) and b.value.id == t and not any(isinstance(x, ast.Name) and x.id == t for tg in b.targets for x in ast.walk(tg)):
                            b.value = a.value
                        elif _fold_into(b, t, a.value):
                            pass
                        else:
                            continue
                        del blk[i]
                        folds += 1
                        done = True
                        break
                    if done:
                        break
                if done:
                    break
            if not done:
                break
    return folds


class PyProgram:
    def __init__(self, repo: Path = REPO, dirs: list[str] | None = None):
        self.repo = repo
        self.modules: dict[str, PyModule] = {}   # by rel path
        self.by_dotted: dict[str, PyModule] = {}
        self.n_files = 0
        for d in dirs or PY_DIRS:
            base = repo / d
            if not base.is_dir():
                continue
            for p in sorted(base.rglob("*.py")):
                rel = str(p.relative_to(repo))
                if "/.venv/" in rel or "/node_modules/" in rel or "/target/" in rel:
                    continue
                try:
                    text = p.read_text()
                    tree = ast.parse(text, filename=rel)
                    canon_temps(tree)
                except (SyntaxError, UnicodeDecodeError) as e:
                    raise AnalysisError(f"python file does not parse: {rel}: {e}")
                dotted = rel[:-3].replace("/", ".")
                if dotted.endswith(".__init__"):
                    dotted = dotted[: -len(".__init__")]
                m = PyModule(self, rel, dotted, tree, text)
                self.modules[rel] = m
                self.by_dotted[dotted] = m
                self.n_files += 1
        self._classes: dict[tuple[str, str], PyClass] = {}
        self._value_cache: dict[tuple[str, str], Any] = {}

    # -- lookups ---------------------------------------------------------
    def module(self, rel: str) -> PyModule:
        m = self.modules.get(rel)
        if m is None:
            raise AnalysisError(f"python module anchor vanished: {rel}")
        return m

    def resolve_symbol(self, mod: PyModule, name: str, _seen: set | None = None) -> tuple[PyModule, ast.AST] | None:
        """Find the defining statement of `name` as seen from module `mod`
        (own definitions, explicit imports, star imports) inside the repo."""
        _seen = _seen or set()
        if (mod.rel, name) in _seen:
            return None
        _seen.add((mod.rel, name))
        if name in mod.symbols:
            return mod, mod.symbols[name][-1]
        if name in mod.imports:
            tgt, attr = mod.imports[name]
            m2 = self.by_dotted.get(tgt)
            if m2 is not None and attr is not None:
                return self.resolve_symbol(m2, attr, _seen)
            if attr is not None and self.by_dotted.get(tgt + "." + attr):
                return None
            return None
        for star in mod.star_imports:
            m2 = self.by_dotted.get(star)
            if m2 is not None:
                r = self.resolve_symbol(m2, name, _seen)
                if r is not None:
                    return r
        return None

    def cls(self, mod: PyModule, name: str) -> PyClass | None:
        r = self.resolve_symbol(mod, name)
        if r is None or not isinstance(r[1], ast.ClassDef):
            return None
        m, node = r
        key = (m.rel, node.name)
        c = self._classes.get(key)
        if c is None:
            c = PyClass(m, node)
            self._classes[key] = c
            c.mro = self._c3(c)
        return c

    def need_cls(self, mod: PyModule, name: str) -> PyClass:
        c = self.cls(mod, name)
        if c is None:
            raise AnalysisError(f"python class anchor vanished: {name} (from {mod.rel})")
        return c

    def _c3(self, c: PyClass) -> list[PyClass]:
        bases = [b for b in (self.cls(c.mod, n) for n in c.base_names) if b is not None]
        seqs = [list(b.mro) for b in bases] + [list(bases)]
        out = [c]
        while any(seqs):
            seqs = [s for s in seqs if s]
            for s in seqs:
                cand = s[0]
                if not any(cand in t[1:] for t in seqs):
                    break
            else:
                raise AnalysisError(f"inconsistent MRO for {c.name}")
            out.append(cand)
            for s in seqs:
                if s and s[0] is cand:
                    del s[0]
        return out

    def all_classes(self, mod: PyModule) -> list[PyClass]:
        out = []
        for name, nodes in mod.symbols.items():
            if isinstance(nodes[-1], ast.ClassDef):
                c = self.cls(mod, name)
                if c:
                    out.append(c)
        return out

    def func(self, rel: str, qual: str) -> ast.FunctionDef:
        mod = self.module(rel)
        parts = qual.split(".")
        if len(parts) == 1:
            nodes = mod.symbols.get(qual)
            if nodes and isinstance(nodes[-1], (ast.FunctionDef, ast.AsyncFunctionDef)):
                return nodes[-1]
        elif len(parts) == 2:
            c = self.cls(mod, parts[0])
            if c and c.mod is mod and parts[1] in c.methods:
                return c.methods[parts[1]]
        for q, node in mod.functions():
            if q == qual:
                return node
        raise AnalysisError(f"python function anchor vanished: {rel}::{qual}")

    def value(self, rel: str, name: str) -> Any:
        key = (rel, name)
        if key not in self._value_cache:
            mod = self.module(rel)
            self._value_cache[key] = PyEval(self, mod).name(name)
        return self._value_cache[key]


IDENTITY_CTORS = {"RegisterName", "FlagName", "IntrinsicName", "LLIL_TEMP_ID"}

_BINOPS = {
    ast.Add: operator.add, ast.Sub: operator.sub, ast.Mult: operator.mul,
    ast.FloorDiv: operator.floordiv, ast.Mod: operator.mod, ast.BitAnd: operator.and_,
    ast.BitOr: operator.or_, ast.BitXor: operator.xor, ast.LShift: operator.lshift,
    ast.RShift: operator.rshift, ast.Pow: operator.pow, ast.Div: operator.truediv,
}
_CMPOPS = {
    ast.Eq: operator.eq, ast.NotEq: operator.ne, ast.Lt: operator.lt, ast.LtE: operator.le,
    ast.Gt: operator.gt, ast.GtE: operator.ge,
    ast.Is: lambda a, b: a is b or (a is None and b is None) or (a == b and type(a) is type(b) and isinstance(a, (EnumMember, bool))),
    ast.IsNot: lambda a, b: not (a is b or (a == b and type(a) is type(b) and isinstance(a, (EnumMember, bool)))),
    ast.In: lambda a, b: a in b, ast.NotIn: lambda a, b: a not in b,
}


def _unwrap(v: Any) -> Any:
    return v.value if isinstance(v, EnumMember) and isinstance(v.value, (int, str)) else v


class _Return(Exception):
    def __init__(self, v: Any):
        self.v = v


class _Raise(Exception):
    pass


class PyRaised(NotConst):
    """the interpreted code executed `raise <exc_name>(...)`"""
    exc_name: str | None = None


class _Break(Exception):
    pass


class _Continue(Exception):
    pass


class PyEval:
    def __init__(self, prog: PyProgram, mod: PyModule, env: dict | None = None, budget: list | None = None):
        self.prog = prog
        self.mod = mod
        self.env = env if env is not None else {}
        self.budget = budget if budget is not None else [200000]

    # -- names -----------------------------------------------------------
    def name(self, name: str) -> Any:
        if name in self.env:
            return self.env[name]
        key = (self.mod.rel, name)
        cache = self.prog._value_cache
        if key in cache:
            v = cache[key]
            if v is _IN_PROGRESS:
                raise NotConst(f"cyclic definition of {name}")
            return v
        r = self.prog.resolve_symbol(self.mod, name)
        if r is None:
            return self._builtin(name)
        m, node = r
        key2 = (m.rel, name)
        if key2 in cache and cache[key2] is not _IN_PROGRESS:
            return cache[key2]
        cache[key2] = _IN_PROGRESS
        try:
            v = PyEval(self.prog, m, budget=self.budget)._define(name, node)
        except BaseException:
            cache.pop(key2, None)
            raise
        cache[key2] = v
        return v

    def _builtin(self, name: str) -> Any:
        if name in ("True", "False", "None"):
            return {"True": True, "False": False, "None": None}[name]
        if name in _BUILTIN_FUNCS:
            return ("builtin", name)
        if name in IDENTITY_CTORS:
            return ("identity", name)
        if name in self.mod.imports:
            return ("external", ".".join(x for x in self.mod.imports[name] if x))
        # names star-imported from third-party modules (binaryninja mocks etc.)
        return ("external", name)

    def _define(self, name: str, node: ast.AST) -> Any:
        if isinstance(node, ast.ClassDef):
            return ClassRef(self.mod.rel, node.name)
        if isinstance(node, (ast.FunctionDef, ast.AsyncFunctionDef)):
            return FuncRef(self.mod.rel, node.name)
        if isinstance(node, ast.AnnAssign):
            return self.eval(node.value)
        if isinstance(node, ast.Assign):
            val = self.eval(node.value)
            for t in node.targets:
                if isinstance(t, ast.Name) and t.id == name:
                    return val
                if isinstance(t, (ast.Tuple, ast.List)):
                    names = _target_names(t)
                    if name in names:
                        return list(val)[names.index(name)]
            raise NotConst(f"cannot bind {name}")
        raise NotConst(f"unsupported definition of {name}")

    # -- enum classes ----------------------------------------------------
    def enum_members(self, cref: ClassRef) -> dict[str, EnumMember] | None:
        mod = self.prog.module(cref.module)
        c = self.prog.cls(mod, cref.name)
        if c is None:
            return None
        ext = c.ext_bases()
        if not ({"Enum", "IntEnum", "IntFlag", "Flag", "StrEnum"} & ext):
            return None
        out: dict[str, EnumMember] = {}
        ev = PyEval(self.prog, c.mod, env={}, budget=self.budget)
        auto = 0
        body: list = []
        for st in c.node.body:
            # `for _i in range(N): locals()[f"TEMP{_i}"] = f"TEMP{_i}"` -> unrolled member definitions
            if isinstance(st, ast.For) and isinstance(st.target, ast.Name):
                for item in ev._iter(ev.eval(st.iter)):
                    for sub in st.body:
                        if (isinstance(sub, ast.Assign) and len(sub.targets) == 1 and isinstance(sub.targets[0], ast.Subscript)
                                and isinstance(sub.targets[0].value, ast.Call) and unparse(sub.targets[0].value) == "locals()"):
                            ev.env = {st.target.id: item}
                            nm = ev.eval(sub.targets[0].slice)
                            val = ev.eval(sub.value)
                            body.append(ast.Assign(targets=[ast.Name(id=nm)], value=_Lit(val), lineno=sub.lineno))
                        else:
                            raise NotConst(f"unsupported statement in enum body loop at {c.mod.rel}:{sub.lineno}")
            else:
                body.append(st)
        for st in body:
            tgt = None
            if isinstance(st, ast.Assign) and len(st.targets) == 1 and isinstance(st.targets[0], ast.Name):
                tgt, valnode = st.targets[0].id, st.value
            elif isinstance(st, ast.AnnAssign) and isinstance(st.target, ast.Name) and st.value is not None:
                tgt, valnode = st.target.id, st.value
            if tgt is None or tgt.startswith("_"):
                continue
            if isinstance(valnode, ast.Call) and isinstance(valnode.func, ast.Name) and valnode.func.id == "auto":
                auto += 1
                v: Any = auto
            else:
                ev.env = {k: m for k, m in out.items()}
                v = ev.eval(valnode)
                if isinstance(v, EnumMember):
                    out[tgt] = v  # alias
                    continue
                if isinstance(v, int):
                    auto = v
            out[tgt] = EnumMember(c.name, tgt, v)
        return out

    # -- expressions -----------------------------------------------------
    def eval(self, n: ast.AST) -> Any:
        self.budget[0] -= 1
        if self.budget[0] <= 0:
            raise NotConst("evaluation budget exhausted")
        m = getattr(self, "e_" + type(n).__name__, None)
        if m is None:
            raise NotConst(f"unsupported expression {type(n).__name__} at {self.mod.rel}:{getattr(n, 'lineno', '?')}")
        return m(n)

    def e_Constant(self, n: ast.Constant) -> Any:
        return n.value

    def e_Name(self, n: ast.Name) -> Any:
        return self.name(n.id)

    def e_Tuple(self, n: ast.Tuple) -> Any:
        return tuple(self._elts(n.elts))

    def e_List(self, n: ast.List) -> Any:
        return list(self._elts(n.elts))

    def e_Set(self, n: ast.Set) -> Any:
        return set(self._elts(n.elts))

    def _elts(self, elts: list[ast.expr]) -> list:
        out = []
        for e in elts:
            if isinstance(e, ast.Starred):
                out.extend(self.eval(e.value))
            else:
                out.append(self.eval(e))
        return out

    def e_Dict(self, n: ast.Dict) -> Any:
        d = {}
        for k, v in zip(n.keys, n.values):
            if k is None:
                d.update(self.eval(v))
            else:
                d[self.eval(k)] = self.eval(v)
        return d

    def e_UnaryOp(self, n: ast.UnaryOp) -> Any:
        v = self.eval(n.operand)
        if isinstance(n.op, ast.USub):
            return -_unwrap(v)
        if isinstance(n.op, ast.Invert):
            return ~_unwrap(v)
        if isinstance(n.op, ast.Not):
            return not v
        if isinstance(n.op, ast.UAdd):
            return +_unwrap(v)
        raise NotConst("unary")

    def e_BinOp(self, n: ast.BinOp) -> Any:
        a, b = self.eval(n.left), self.eval(n.right)
        f = _BINOPS.get(type(n.op))
        if f is None:
            raise NotConst("binop")
        if any(isinstance(x, tuple) and x and x[0] in ("external", "external-op") for x in (a, b)):
            return ("external-op", type(n.op).__name__, a, b)
        try:
            if isinstance(a, (list, tuple, str)) and isinstance(n.op, (ast.Add, ast.Mult, ast.Mod)):
                return f(a, _unwrap(b) if not isinstance(b, (list, tuple)) else b)
            return f(_unwrap(a), _unwrap(b))
        except TypeError as ex:
            raise NotConst(f"binop on non-constants: {ex}")

    def e_BoolOp(self, n: ast.BoolOp) -> Any:
        if isinstance(n.op, ast.And):
            v: Any = True
            for e in n.values:
                v = self.eval(e)
                if not v:
                    return v
            return v
        v = False
        for e in n.values:
            v = self.eval(e)
            if v:
                return v
        return v

    def e_Compare(self, n: ast.Compare) -> Any:
        left = self.eval(n.left)
        for op, r in zip(n.ops, n.comparators):
            right = self.eval(r)
            f = _CMPOPS[type(op)]
            a, b = left, right
            if not isinstance(op, (ast.Is, ast.IsNot, ast.In, ast.NotIn)):
                if isinstance(a, EnumMember) and not isinstance(b, EnumMember):
                    a = _unwrap(a)
                if isinstance(b, EnumMember) and not isinstance(a, EnumMember):
                    b = _unwrap(b)
            if not f(a, b):
                return False
            left = right
        return True

    def e_IfExp(self, n: ast.IfExp) -> Any:
        return self.eval(n.body) if self.eval(n.test) else self.eval(n.orelse)

    def e_JoinedStr(self, n: ast.JoinedStr) -> Any:
        out = ""
        for v in n.values:
            if isinstance(v, ast.Constant):
                out += str(v.value)
            elif isinstance(v, ast.FormattedValue):
                val = self.eval(v.value)
                spec = self.eval(v.format_spec) if v.format_spec else ""
                out += format(_unwrap(val), spec)
        return out

    def e_Attribute(self, n: ast.Attribute) -> Any:
        base = self.eval(n.value)
        if isinstance(base, ClassRef):
            members = self.enum_members(base)
            if members is not None:
                if n.attr in members:
                    return members[n.attr]
                if n.attr == "__members__":
                    return dict(members)
            mod = self.prog.module(base.module)
            c = self.prog.cls(mod, base.name)
            if c is not None:
                r = c.find_attr(n.attr)
                if r is not None:
                    return PyEval(self.prog, r[0].mod, budget=self.budget).eval(r[1])
                if c.find_method(n.attr):
                    return ("method", base, n.attr)
            raise NotConst(f"class attribute {base.name}.{n.attr}")
        if isinstance(base, EnumMember):
            if n.attr == "value":
                return base.value
            if n.attr == "name":
                return base.name
        if isinstance(base, Term):
            if n.attr in base.kwargs:
                return base.kwargs[n.attr]
            raise NotConst(f"attribute {n.attr} of term {base.ctor}")
        if isinstance(base, dict) and n.attr in ("get", "items", "keys", "values", "setdefault", "update"):
            return ("bound", base, n.attr)
        if isinstance(base, (list, set)) and n.attr in ("append", "add", "extend", "index", "copy"):
            return ("bound", base, n.attr)
        if isinstance(base, str) and n.attr in ("split", "upper", "lower", "startswith", "endswith", "join", "format", "strip", "replace", "removeprefix", "removesuffix", "lstrip", "rstrip", "isdigit", "find", "partition", "rpartition", "zfill"):
            return ("bound", base, n.attr)
        if isinstance(base, tuple) and base and base[0] == "external":
            return ("external", base[1] + "." + n.attr)
        if isinstance(base, range) and n.attr in ("start", "stop", "step"):
            return getattr(base, n.attr)
        if getattr(base, "_sa_host", False) and not n.attr.startswith(("__", "_sa_")) and hasattr(base, n.attr):
            return getattr(base, n.attr)  # abstract host object supplied by a check (its methods are the transfer functions)
        raise NotConst(f"attribute .{n.attr} on {type(base).__name__} at {self.mod.rel}:{n.lineno}")

    def e_Subscript(self, n: ast.Subscript) -> Any:
        base = self.eval(n.value)
        if isinstance(n.slice, ast.Slice):
            lo = self.eval(n.slice.lower) if n.slice.lower else None
            hi = self.eval(n.slice.upper) if n.slice.upper else None
            st = self.eval(n.slice.step) if n.slice.step else None
            return base[slice(lo, hi, st)]
        idx = self.eval(n.slice)
        if isinstance(base, ClassRef):
            members = self.enum_members(base)
            if members is not None:
                return members[idx]
            return base  # generic subscript such as Dict[int, X]
        if isinstance(base, tuple) and base and base[0] in ("external", "builtin"):
            return base
        try:
            if isinstance(base, (list, tuple, str)):
                return base[_unwrap(idx)]
            return base[idx]
        except (KeyError, IndexError, TypeError) as ex:
            if isinstance(base, dict) and isinstance(idx, EnumMember) and _unwrap(idx) in base:
                return base[_unwrap(idx)]
            raise NotConst(f"subscript: {ex!r}")

    def _comp(self, gens: list[ast.comprehension], emit) -> None:
        def rec(i: int) -> None:
            if i == len(gens):
                emit()
                return
            g = gens[i]
            for item in self._iter(self.eval(g.iter)):
                self._bind(g.target, item)
                if all(self.eval(c) for c in g.ifs):
                    rec(i + 1)
        saved = dict(self.env)
        try:
            rec(0)
        finally:
            self.env.clear()
            self.env.update(saved)

    def e_ListComp(self, n: ast.ListComp) -> Any:
        out: list = []
        self._comp(n.generators, lambda: out.append(self.eval(n.elt)))
        return out

    def e_GeneratorExp(self, n: ast.GeneratorExp) -> Any:
        return self.e_ListComp(n)  # type: ignore[arg-type]

    def e_SetComp(self, n: ast.SetComp) -> Any:
        out: set = set()
        self._comp(n.generators, lambda: out.add(self.eval(n.elt)))
        return out

    def e_DictComp(self, n: ast.DictComp) -> Any:
        out: dict = {}

        def emit() -> None:
            out[self.eval(n.key)] = self.eval(n.value)
        self._comp(n.generators, emit)
        return out

    def e_NamedExpr(self, n: ast.NamedExpr) -> Any:
        v = self.eval(n.value)
        self._bind(n.target, v)
        return v

    def e_Lambda(self, n: ast.Lambda) -> Any:
        return ("lambda", n, dict(self.env))

    def e_Starred(self, n: ast.Starred) -> Any:
        raise NotConst("starred")

    def _iter(self, v: Any) -> Any:
        if isinstance(v, ClassRef):
            members = self.enum_members(v)
            if members is None:
                raise NotConst("iterating a class")
            seen = []
            for m in members.values():
                if m not in seen:
                    seen.append(m)
            return seen
        if isinstance(v, dict):
            return list(v.keys())
        if isinstance(v, (list, tuple, set, frozenset, range, str)):
            return list(v) if not isinstance(v, set) else sorted(v, key=repr)
        raise NotConst(f"not iterable: {type(v).__name__}")

    def _bind(self, target: ast.AST, value: Any) -> None:
        if isinstance(target, ast.Name):
            self.env[target.id] = value
        elif isinstance(target, (ast.Tuple, ast.List)):
            vals = list(value)
            if len(vals) != len(target.elts):
                raise NotConst("unpack arity")
            for t, v in zip(target.elts, vals):
                self._bind(t, v)
        elif isinstance(target, ast.Subscript):
            base = self.eval(target.value)
            idx = self.eval(target.slice)
            if not isinstance(base, (dict, list)) and not getattr(base, "_sa_host", False):
                raise NotConst("subscript store on non-container")
            base[idx] = value
        elif isinstance(target, ast.Attribute):
            base = self.eval(target.value)
            if isinstance(base, Term):
                base.kwargs[target.attr] = value
            elif getattr(base, "_sa_host", False):
                setattr(base, target.attr, value)
            else:
                raise NotConst(f"attribute store on {type(base).__name__}")
        else:
            raise NotConst(f"bind target {type(target).__name__}")

    # -- calls -----------------------------------------------------------
    def e_Call(self, n: ast.Call) -> Any:
        f = self.eval(n.func)
        args = self._elts(n.args)
        kwargs = {}
        for kw in n.keywords:
            if kw.arg is None:
                kwargs.update(self.eval(kw.value))
            else:
                kwargs[kw.arg] = self.eval(kw.value)
        return self.call(f, args, kwargs, n)

    def call(self, f: Any, args: list, kwargs: dict, n: ast.AST | None = None) -> Any:
        ln = getattr(n, "lineno", 0)
        if isinstance(f, ClassRef):
            members = self.enum_members(f)
            if members is not None:
                if len(args) == 1:
                    for m in members.values():
                        if m.value == args[0] or m == args[0]:
                            return m
                    raise NotConst(f"no enum member with value {args[0]!r}")
            return Term(f.name, tuple(args), self._name_positional(f, args, kwargs), ln)
        if isinstance(f, FuncRef):
            return self._call_func(f, args, kwargs)
        if isinstance(f, tuple) and f:
            tag = f[0]
            if tag == "identity":
                return args[0] if args else None
            if tag == "builtin":
                return _BUILTIN_FUNCS[f[1]](self, *args, **kwargs)
            if tag == "bound":
                _t, base, meth = f
                if isinstance(base, dict) and meth == "get":
                    k = args[0]
                    return base.get(k, args[1] if len(args) > 1 else None)
                if isinstance(base, dict) and meth == "items":
                    return list(base.items())
                if isinstance(base, dict) and meth == "keys":
                    return list(base.keys())
                if isinstance(base, dict) and meth == "values":
                    return list(base.values())
                if isinstance(base, dict) and meth == "setdefault":
                    return base.setdefault(args[0], args[1] if len(args) > 1 else None)
                if isinstance(base, dict) and meth == "update":
                    base.update(*args, **kwargs)
                    return None
                if meth in ("append", "add", "extend", "index", "copy"):
                    return getattr(base, meth)(*args)
                if isinstance(base, str):
                    return getattr(base, meth)(*[_unwrap(a) for a in args])
            if tag == "external":
                return Term(f[1].split(".")[-1], tuple(args), kwargs, ln)
            if tag == "lambda":
                _t, node, env = f
                ev = PyEval(self.prog, self.mod, dict(env), self.budget)
                for p, a in zip(node.args.args, args):
                    ev.env[p.arg] = a
                return ev.eval(node.body)
            if tag == "closure":
                _t, node, env = f
                return self._run_function(node, PyEval(self.prog, self.mod, dict(env), self.budget), args, kwargs)
            if tag == "method":
                raise NotConst(f"unbound method call {f}")
        if callable(f) and not isinstance(f, (ClassRef, FuncRef, Term)):
            return f(*args, **kwargs)   # analysis-supplied abstract transfer function
        raise NotConst(f"call of non-constant callee {f!r} at {self.mod.rel}:{ln}")

    def _name_positional(self, cref: ClassRef, args: list, kwargs: dict) -> dict:
        """Map positional constructor arguments to parameter / dataclass field names."""
        if not cref.module:
            return kwargs
        c = self.prog.cls(self.prog.module(cref.module), cref.name)
        if c is None:
            return kwargs
        names: list[str] = []
        init = c.find_method("__init__")
        if init is not None:
            a = init[1].args
            names = [p.arg for p in a.posonlyargs + a.args][1:]
        else:
            for k in reversed(c.mro):
                is_dc = any("dataclass" in unparse(d) for d in k.node.decorator_list)
                if is_dc:
                    for st in k.node.body:
                        if isinstance(st, ast.AnnAssign) and isinstance(st.target, ast.Name):
                            names.append(st.target.id)
        out = dict(kwargs)
        for nm, v in zip(names, args):
            out.setdefault(nm, v)
        return out

    def _call_func(self, f: FuncRef, args: list, kwargs: dict) -> Any:
        mod = self.prog.module(f.module)
        node = mod.symbols[f.name][-1]
        assert isinstance(node, ast.FunctionDef)
        for d in node.decorator_list:
            dn = d.id if isinstance(d, ast.Name) else getattr(d, "attr", "")
            if dn not in ("staticmethod", "lru_cache", "cache"):
                raise NotConst(f"decorated function {f.name}")
        return self._run_function(node, PyEval(self.prog, mod, {}, self.budget), args, kwargs)

    def _run_function(self, node: ast.FunctionDef, ev: "PyEval", args: list, kwargs: dict) -> Any:
        f = node
        a = node.args
        params = [p.arg for p in a.posonlyargs + a.args]
        defaults = a.defaults
        for i, p in enumerate(params):
            if i < len(args):
                ev.env[p] = args[i]
            elif p in kwargs:
                ev.env[p] = kwargs[p]
            else:
                di = i - (len(params) - len(defaults))
                if di < 0:
                    raise NotConst(f"missing argument {p} for {node.name}")
                ev.env[p] = ev.eval(defaults[di])
        for p, dflt in zip(a.kwonlyargs, a.kw_defaults):
            ev.env[p.arg] = kwargs[p.arg] if p.arg in kwargs else (ev.eval(dflt) if dflt else None)
        is_gen = any(isinstance(x, (ast.Yield, ast.YieldFrom)) for x in ast.walk(node))
        ev._yields = [] if is_gen else None  # type: ignore[attr-defined]
        try:
            ev.exec_block(node.body)
        except _Return as r:
            return ev._yields if is_gen else r.v  # type: ignore[attr-defined]
        return ev._yields if is_gen else None  # type: ignore[attr-defined]

    # -- statements (only inside folded helper functions) -----------------
    def exec_block(self, body: list[ast.stmt]) -> None:
        for st in body:
            self.exec(st)

    def exec(self, st: ast.stmt) -> None:
        self.budget[0] -= 1
        if self.budget[0] <= 0:
            raise NotConst("evaluation budget exhausted")
        if isinstance(st, ast.Expr):
            if isinstance(st.value, ast.Constant):
                return
            if isinstance(st.value, ast.Yield):
                self._yields.append(self.eval(st.value.value) if st.value.value else None)  # type: ignore[attr-defined]
                return
            if isinstance(st.value, ast.YieldFrom):
                self._yields.extend(self._iter(self.eval(st.value.value)))  # type: ignore[attr-defined]
                return
            self.eval(st.value)
        elif isinstance(st, ast.Assign):
            v = self.eval(st.value)
            for t in st.targets:
                self._bind(t, v)
        elif isinstance(st, ast.AnnAssign):
            if st.value is not None:
                self._bind(st.target, self.eval(st.value))
        elif isinstance(st, ast.AugAssign):
            cur = self.eval(st.target)  # type: ignore[arg-type]
            v = _BINOPS[type(st.op)](_unwrap(cur), _unwrap(self.eval(st.value)))
            self._bind(st.target, v)
        elif isinstance(st, ast.Return):
            raise _Return(self.eval(st.value) if st.value else None)
        elif isinstance(st, ast.If):
            self.exec_block(st.body if self.eval(st.test) else st.orelse)
        elif isinstance(st, ast.For):
            broke = False
            for item in self._iter(self.eval(st.iter)):
                self._bind(st.target, item)
                try:
                    self.exec_block(st.body)
                except _Continue:
                    continue
                except _Break:
                    broke = True
                    break
            if not broke:
                self.exec_block(st.orelse)
        elif isinstance(st, ast.While):
            n = 0
            while self.eval(st.test):
                n += 1
                if n > 100000:
                    raise NotConst("loop bound")
                try:
                    self.exec_block(st.body)
                except _Continue:
                    continue
                except _Break:
                    break
        elif isinstance(st, ast.Continue):
            raise _Continue()
        elif isinstance(st, ast.Break):
            raise _Break()
        elif isinstance(st, ast.Pass):
            return
        elif isinstance(st, ast.Raise):
            exc = st.exc.func if isinstance(st.exc, ast.Call) else st.exc
            e = PyRaised(f"folded helper raises at {self.mod.rel}:{st.lineno}")
            e.exc_name = (exc.id if isinstance(exc, ast.Name) else getattr(exc, "attr", None)) if exc is not None else None
            raise e
        elif isinstance(st, ast.Try):
            # a `raise X(...)` executed inside the body is matched against the handlers by class name (builtin hierarchy: a bare
            # except / Exception / BaseException catches everything); anything else leaves the fragment as before
            try:
                self.exec_block(st.body)
            except PyRaised as r:
                if st.finalbody:
                    raise NotConst(f"try/finally with a raising body at {self.mod.rel}:{st.lineno}")
                for h in st.handlers:
                    names = []
                    if h.type is None:
                        names = ["BaseException"]
                    else:
                        for t in (h.type.elts if isinstance(h.type, ast.Tuple) else [h.type]):
                            names.append(t.id if isinstance(t, ast.Name) else getattr(t, "attr", ""))
                    if r.exc_name is not None and (r.exc_name in names or "Exception" in names or "BaseException" in names):
                        if h.name:
                            raise NotConst(f"except ... as {h.name} at {self.mod.rel}:{h.lineno}")
                        self.exec_block(h.body)
                        break
                else:
                    raise
            else:
                self.exec_block(st.orelse)
                self.exec_block(st.finalbody)
        elif isinstance(st, ast.Assert):
            if not self.eval(st.test):
                raise NotConst(f"folded helper assertion fails at {self.mod.rel}:{st.lineno}")
        elif isinstance(st, ast.FunctionDef):
            self.env[st.name] = ("closure", st, self.env)
        elif isinstance(st, (ast.ClassDef, ast.Import, ast.ImportFrom)):
            return
        else:
            raise NotConst(f"unsupported statement {type(st).__name__} at {self.mod.rel}:{st.lineno}")


_IN_PROGRESS = object()


def _bi_sorted(ev: PyEval, it: Any, key: Any = None, reverse: bool = False) -> list:
    items = ev._iter(it)
    if key is not None:
        return sorted(items, key=lambda x: ev.call(key, [x], {}), reverse=reverse)
    return sorted(items, key=lambda x: _unwrap(x), reverse=reverse)


def _bi_isinstance(ev: PyEval, v: Any, t: Any) -> bool:
    names = []
    for x in (t if isinstance(t, tuple) and not (t and isinstance(t[0], str)) else (t,)):
        if isinstance(x, ClassRef):
            names.append(x.name)
        elif isinstance(x, tuple) and x and x[0] == "builtin":
            names.append(x[1])
        else:
            raise NotConst("isinstance on non-class")
    if isinstance(v, Term):
        mod_c = None
        for m in ev.prog.modules.values():
            c = ev.prog.cls(m, v.ctor)
            if c is not None:
                mod_c = c
                break
        if mod_c is None:
            raise NotConst(f"isinstance: unknown class {v.ctor}")
        return any(mod_c.is_subclass_of(nm) for nm in names)
    py = {"int": int, "str": str, "tuple": tuple, "list": list, "dict": dict, "set": set, "bool": bool}
    if isinstance(v, ClassRef):
        return "type" in names
    return any(isinstance(v, py[nm]) for nm in names if nm in py)


def _bi_getattr(ev: "PyEval", o: Any, n: str, *d: Any) -> Any:
    try:
        return ev.e_Attribute(ast.Attribute(value=_Lit(o), attr=n, lineno=0))
    except NotConst:
        if d:
            return d[0]
        raise


_BUILTIN_FUNCS = {
    "len": lambda ev, x: len(x),
    "min": lambda ev, *a, **k: min(*[_unwrap(x) for x in a]) if len(a) > 1 else min(ev._iter(a[0])),
    "max": lambda ev, *a, **k: max(*[_unwrap(x) for x in a]) if len(a) > 1 else max(ev._iter(a[0])),
    "sum": lambda ev, x, s=0: sum((_unwrap(i) for i in ev._iter(x)), s),
    "set": lambda ev, x=(): set(ev._iter(x)),
    "frozenset": lambda ev, x=(): frozenset(ev._iter(x)),
    "list": lambda ev, x=(): list(ev._iter(x)),
    "tuple": lambda ev, x=(): tuple(ev._iter(x)),
    "dict": lambda ev, x=(), **k: {**dict(x), **k},
    "sorted": _bi_sorted,
    "reversed": lambda ev, x: list(reversed(ev._iter(x))),
    "range": lambda ev, *a: range(*[_unwrap(x) for x in a]),
    "enumerate": lambda ev, x, start=0: list(enumerate(ev._iter(x), start)),
    "zip": lambda ev, *a: list(zip(*[ev._iter(x) for x in a])),
    "int": lambda ev, x=0, base=None: int(x, base) if base is not None else int(_unwrap(x)),
    "str": lambda ev, x="": str(_unwrap(x)),
    "bool": lambda ev, x=False: bool(x),
    "abs": lambda ev, x: abs(_unwrap(x)),
    "isinstance": _bi_isinstance,
    "hex": lambda ev, x: hex(_unwrap(x)),
    "bytes": lambda ev, x=(): bytes(x),
    "bytearray": lambda ev, x=(): bytearray(x),
    "any": lambda ev, x: any(ev._iter(x)),
    "all": lambda ev, x: all(ev._iter(x)),
    "type": lambda ev, x: ClassRef("", x.cls) if isinstance(x, EnumMember) else (_ for _ in ()).throw(NotConst("type()")),
    "getattr": lambda ev, o, n, *d: _bi_getattr(ev, o, n, *d),
    "print": lambda ev, *a, **k: None,
}


class _Lit(ast.expr):
    """Wrap an already-evaluated value as an expression node."""
    def __init__(self, v: Any):
        self.v = v


def _e_Lit(self: PyEval, n: _Lit) -> Any:
    return n.v


PyEval.e__Lit = _e_Lit  # type: ignore[attr-defined]


# -- generic AST helpers used by the rule modules -------------------------

def unparse(n: ast.AST | None) -> str:
    return " ".join(ast.unparse(n).split()) if n is not None else ""


def attr_chain(n: ast.AST) -> str | None:
    """`a.b.c` -> 'a.b.c' for Name/Attribute chains, else None."""
    parts = []
    while isinstance(n, ast.Attribute):
        parts.append(n.attr)
        n = n.value
    if isinstance(n, ast.Name):
        parts.append(n.id)
        return ".".join(reversed(parts))
    return None


def calls(node: ast.AST) -> Iterator[ast.Call]:
    for n in ast.walk(node):
        if isinstance(n, ast.Call):
            yield n


def call_name(c: ast.Call) -> str:
    return attr_chain(c.func) or ""


class ClassHost:
    """A host stand-in for an instance of a repo class: the fields a check supplies are plain attributes; any *other* attribute is
    looked up on the real class - a method is interpreted from its source with this object as `self`, a class attribute is evaluated."""
    _sa_host = True

    def __init__(self, prog: "PyProgram", mod: "PyModule", cls: "PyClass", **fields: Any):
        object.__setattr__(self, "_sa_prog", prog)
        object.__setattr__(self, "_sa_mod", mod)
        object.__setattr__(self, "_sa_cls", cls)
        for k, v in fields.items():
            object.__setattr__(self, k, v)

    def __getattr__(self, name: str) -> Any:
        if name.startswith(("__", "_sa_")):
            raise AttributeError(name)
        cls = object.__getattribute__(self, "_sa_cls")
        hit = cls.find_method(name)
        if hit is not None:
            owner, fn = hit
            return lambda *a, **k: self._sa_call(owner, fn, a, k)
        at = cls.find_attr(name)
        if at is not None:
            owner, node = at
            return PyEval(self._sa_prog, owner.mod).eval(node)
        raise AttributeError(name)

    def _sa_call(self, owner: "PyClass", fn: ast.FunctionDef, a: tuple, k: dict) -> Any:
        params = [x.arg for x in fn.args.args if x.arg != "self"]
        env: dict = {"self": self}
        defaults = fn.args.defaults
        ev = PyEval(self._sa_prog, owner.mod, budget=[200000])
        for i, dflt in enumerate(defaults):
            env[params[len(params) - len(defaults) + i]] = ev.eval(dflt)
        for kw, dflt in zip(fn.args.kwonlyargs, fn.args.kw_defaults):
            if dflt is not None:
                env[kw.arg] = ev.eval(dflt)
        for i, v in enumerate(a):
            env[params[i]] = v
        env.update(k)
        missing = [p_ for p_ in params if p_ not in env]
        if missing:
            raise NotConst(f"{fn.name}: arguments {missing} not supplied")
        ev.env = env
        try:
            ev.exec_block(fn.body)
        except _Return as r:
            return r.v
        return None
