"""Abstract execution of the Rust operand decoder (LlamaExecutor::decode_operands) for one opcode-table row:
symbolic operand bytes (selector byte concrete), symbolic registers; records the bytes consumed, the result or error,
and for every internal-memory operand the addressing mode chosen and the operand byte it was applied to."""
from __future__ import annotations

from typing import Any

from . import isa
from .bits import BitVec, Lin
from .rsfacts import NotConst, RsInterp, RustProgram

PC = 0x12345


class RsDecode(RsInterp):
    def __init__(self, prog: RustProgram, table: list):
        super().__init__(prog, isa.EVAL_RS)
        self.table = table
        self.reset(None)

    def reset(self, selector: int | None) -> None:
        self.selector = selector
        self.imem_uses: list[tuple[str, str]] = []
        self.mode_indices: list[int] = []

    # -- environment hooks -------------------------------------------------
    def _byte(self, addr: Any) -> Any:
        if isinstance(addr, int):
            off = addr - PC
            if 1 <= off <= 8:
                if off == 1 and self.selector is not None:
                    return self.selector
                return BitVec.sym(f"in{off - 1}", 8)
            if addr >= 0x100000:
                return BitVec.sym(f"m{addr:06X}", 8)
        return BitVec.top() & 0xFF

    def mcall_hook(self, recv: Any, m: str, args: list, env: dict, e: dict) -> Any:
        if recv == "BUS":
            if m == "load":
                bits = args[1]
                if bits == 8:
                    return self._byte(args[0])
                return BitVec.top()
            if m == "resolve_emem":
                return args[0]
            if m in ("peek_imem", "peek_imem_silent"):
                return BitVec.sym(f"imem{args[0]:02X}", 8)
            if m == "store":
                return None
        if recv == "STATE":
            if m == "pc":
                return PC
            if m == "get_reg":
                nm = args[0][1].split("::")[-1] if isinstance(args[0], tuple) else str(args[0])
                return BitVec.sym(f"reg{nm}", 24)
            if m == "set_reg":
                return None
        return NotImplemented

    def call_hook(self, path: str, args: list, env: dict, e: dict) -> Any:
        last = path.split("::")[-1]
        if last == "default" and "DecodedOperands" in path:
            return {"__struct__": "DecodedOperands", "mem": None, "mem2": None, "imm": None, "len": 0, "transfer": None, "reg3": None, "reg_pair": None}
        if last == "mask_for":
            return RsInterp(self.prog, isa.STATE_RS).call("mask_for", [args[0]])
        if last == "trace_imem_addr":
            return None
        if last == "mode_for_operand":
            self.mode_indices.append(args[1])
            return NotImplemented
        if last == "imem_addr_for_mode":
            mode = args[1][1].split("::")[-1] if isinstance(args[1], tuple) else str(args[1])
            raw = args[2]
            from .absint import sym_name
            self.imem_uses.append((mode, hex(raw) if isinstance(raw, int) else sym_name(raw)))
            return BitVec.top() & 0xFFFFFF
        return NotImplemented

    # -- driver --------------------------------------------------------------
    def decode(self, opcode: int, selector: int | None, pre: tuple[str, str] | None) -> dict:
        self.reset(selector)
        entry = self.table[opcode]
        pre_v = None
        if pre is not None:
            pre_v = {"__struct__": "PreModes", "first": ("sym", f"AddressingMode::{pre[0]}"), "second": ("sym", f"AddressingMode::{pre[1]}")}
        fn = self.prog.fn(isa.EVAL_RS, "LlamaExecutor::decode_operands")
        env = {"self": "SELF", "entry": entry, "state": "STATE", "bus": "BUS", "pre": pre_v, "pc_override": None}
        from .rsfacts import _RsReturn
        try:
            res = self.block(fn.body, env)
        except _RsReturn as r:
            res = r.v
        out = {"imem": list(self.imem_uses), "mode_indices": list(self.mode_indices)}
        if isinstance(res, tuple) and res and res[0] == "err":
            out["status"] = "err"
            out["error"] = res[1]
        elif isinstance(res, tuple) and res and res[0] == "okv":
            out["status"] = "ok"
            d = res[1]
            out["len"] = d["len"]
        else:
            raise NotConst(f"decode_operands returned {res!r}")
        return out


RS_MODE = {"N": "N", "BpN": "BP_N", "PxN": "PX_N", "PyN": "PY_N", "BpPx": "BP_PX", "BpPy": "BP_PY"}
PY_TO_RS = {v: k for k, v in RS_MODE.items()}
