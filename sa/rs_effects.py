"""May-effect analysis of the Rust evaluator (LlamaExecutor::execute_with and the helpers it reaches), per opcode-table row.

The table row (`entry`: kind, name, operands) is concrete, everything else (state, bus, decoded operands) is unknown.  The walker
partially evaluates conditions and matches that depend on `entry` only, prunes the dead branches, takes both sides of every other
branch, descends into helper functions of the same impl with their parameters bound where evaluable, and collects

  * the flags that may be written: set_reg(RegName::FC|FZ|F, ..), set_flags_for_result(.., carry) [C only if `carry` can be Some],
    set_flags_cmp(..)
  * whether memory may be stored to, the stack pushed/popped, PC set

It is a may-analysis of syntax with constant pruning - no execution."""
from __future__ import annotations

from typing import Any

from . import isa
from .core import AnalysisError
from .rsfacts import NotConst, RsInterp, RustProgram, expr_text, walk

MAXDEPTH = 6
PURE_HELPERS = {"operand_reg", "mask_for_width", "bits_from_bytes", "reg3_bits"}


class _Interp(RsInterp):
    def call_hook(self, path: str, args: list, env: dict, e: dict) -> Any:
        # pure table helpers of the executor (operand_reg, ...) may be folded when all their arguments are constants
        if path.startswith("Self::") and path.split("::")[-1] in PURE_HELPERS:
            return self.call("LlamaExecutor::" + path.split("::")[-1], args)
        if path.startswith("Self::") or path.startswith("self."):
            raise NotConst(f"call {path}")
        return NotImplemented

    def mcall_hook(self, recv: Any, m: str, args: list, env: dict, e: dict) -> Any:
        if isinstance(recv, (str, list, dict, tuple, int)) and not isinstance(recv, bool):
            return NotImplemented
        raise NotConst(f"mcall {m}")


class Effects:
    def __init__(self) -> None:
        self.flags: set[str] = set()
        self.flags_straight: set[str] = set()      # flags written outside every for/while/loop body (so also on a zero-trip run)
        self.stores = False
        self.sets_pc = False
        self.stack = False
        self.regs: set[str] = set()
        self.reads: set[str] = set()

    def merge(self, o: "Effects") -> None:
        self.flags |= o.flags
        self.flags_straight |= o.flags_straight
        self.stores |= o.stores
        self.sets_pc |= o.sets_pc
        self.stack |= o.stack
        self.regs |= o.regs
        self.reads |= o.reads


UNKNOWN = object()


class _Returned(Exception):
    """zero-trip mode: a `return` reached under decided conditions only - the rest of the function does not run"""


class RsEffects:
    def __init__(self, rs: RustProgram):
        self.rs = rs
        self.it = _Interp(rs, isa.EVAL_RS)
        self.table = rs.eval_const(isa.OPCODES_RS, "OPCODES")
        self.arms = isa.rs_exec_arms(rs)
        self.fns = {fn.name: fn for fn in rs.fns_in(isa.EVAL_RS) if fn.impl_ty == "LlamaExecutor" and fn.body is not None}
        self.zero = False          # zero-trip mode: the byte count I reads as 0
        self._undecided = 0        # nesting depth of branches/loops whose condition the analysis could not decide

    # -- constant pruning -------------------------------------------------
    def val(self, e: Any, env: dict) -> Any:
        """Concrete value of an expression that depends on `entry`/constants only, else UNKNOWN."""
        if not isinstance(e, dict):
            return UNKNOWN
        try:
            names = {n["p"].split("::")[0] for n in walk(e) if n.get("k") == "path" and "::" not in n["p"]}
            if any(nm not in env and nm not in ("None", "true", "false") for nm in names):
                return UNKNOWN
            if any(n.get("k") in ("mcall",) and n["m"] not in ("len", "get", "first", "is_some", "is_none", "contains", "iter", "any", "all", "copied", "unwrap_or", "as_ref", "cloned", "ok_or", "ok_or_else", "unwrap_or_default") for n in walk(e)):
                return UNKNOWN
            return self.it.ev(e, dict(env))
        except NotConst:
            return UNKNOWN
        except Exception:  # noqa: BLE001 - anything the interpreter cannot do is simply not a constant
            return UNKNOWN

    def optness(self, e: Any, env: dict, opt: dict, depth: int = 0, idx: int | None = None) -> str:
        """'none' | 'some' | 'maybe' for an Option-typed expression (idx: component of a tuple-valued expression)."""
        if not isinstance(e, dict) or depth > 8:
            return "maybe"
        k = e.get("k")
        if idx is not None and k == "tuple":
            return self.optness(e["elems"][idx], env, opt, depth + 1) if idx < len(e["elems"]) else "maybe"
        if idx is not None and k not in ("paren", "block", "if", "match"):
            return "maybe"
        if k == "path":
            if e["p"] == "None":
                return "none"
            return opt.get(e["p"], "maybe")
        if k == "call" and expr_text(e["f"]) == "Some":
            return "some"
        if k == "paren":
            return self.optness(e["e"], env, opt, depth + 1, idx)
        if k == "block":
            st = e["stmts"]
            if st and st[-1].get("k") == "expr_stmt" and not st[-1].get("semi"):
                return self.optness(st[-1]["e"], env, opt, depth + 1, idx)
            return "maybe"
        if k == "if":
            c = self.val(e["cond"], env)
            alts = []
            if c is not False:
                alts.append(self.optness(e["then"], env, opt, depth + 1, idx))
            if c is not True:
                alts.append(self.optness(e.get("else"), env, opt, depth + 1, idx) if e.get("else") else "maybe")
            return alts[0] if len(set(alts)) == 1 else "maybe"
        if k == "match":
            arms = self.live_arms(e, env)
            alts = {self.optness(a["body"], env, opt, depth + 1, idx) for a in arms if not _diverges(a["body"])}
            return alts.pop() if len(alts) == 1 else "maybe"
        return "maybe"

    def cond_value(self, cond: Any, env: dict, opt: dict) -> Any:
        """True / False / UNKNOWN; `if let Some(x) = e` / `if let None = e` is decided by the option-ness of e."""
        if isinstance(cond, dict) and cond.get("k") == "let_cond":
            from .rsfacts import pat_text
            pt = pat_text(cond["pat"]).replace(" ", "")
            o = self.optness(cond["e"], env, opt)
            if pt.startswith("Some("):
                return True if o == "some" else False if o == "none" else UNKNOWN
            if pt == "None":
                return True if o == "none" else False if o == "some" else UNKNOWN
            return UNKNOWN
        return self.val(cond, env)

    def live_arms(self, m: dict, env: dict) -> list[dict]:
        scr = self.val(m["e"], env)
        if scr is UNKNOWN:
            return list(m["arms"])
        out = []
        for a in m["arms"]:
            env2 = dict(env)
            try:
                ok = self.it.bind(a["pat"], scr, env2)
            except NotConst:
                out.append(a)
                continue
            if not ok:
                continue
            if a.get("guard") is not None:
                g = self.val(a["guard"], env2)
                if g is False:
                    continue
                out.append(a)
                if g is True:
                    break
                continue
            out.append(a)
            break
        return out

    # -- walker -------------------------------------------------------------
    def _flags(self, eff: Effects, fl: set) -> None:
        eff.flags |= fl
        if not getattr(self, "_loop", 0):
            eff.flags_straight |= fl

    def walk_block(self, node: Any, env: dict, opt: dict, eff: Effects, depth: int) -> None:
        if isinstance(node, list):
            for x in node:
                self.walk_block(x, env, opt, eff, depth)
            return
        if not isinstance(node, dict):
            return
        k = node.get("k")
        if k == "block":
            env2, opt2 = dict(env), dict(opt)
            for st in node["stmts"]:
                self.walk_block(st, env2, opt2, eff, depth)
            return
        if k == "let":
            init = node.get("init")
            if init is not None:
                self.walk_block(init, env, opt, eff, depth)
                pat = node.get("pat", {})
                if pat.get("k") == "p_ident":
                    v = self.val(init, env)
                    if self.zero and v is UNKNOWN and self._reads_count(init):
                        v = 0
                    mutated = env.get("__mutated__", ())
                    if v is not UNKNOWN and pat["name"] not in mutated:
                        env[pat["name"]] = v
                    else:
                        env.pop(pat["name"], None)
                    opt[pat["name"]] = self.optness(init, env, opt)
                    # `let saved = state.get_reg(RegName::X)` - a later set_reg(X, saved) restores, it does not write
                    it = init
                    while isinstance(it, dict) and it.get("k") in ("binary", "paren", "cast"):
                        it = it.get("l") or it.get("e")
                    if isinstance(it, dict) and it.get("k") == "mcall" and it["m"] == "get_reg" and it["args"]:
                        env.setdefault("__saved__", {})
                        env["__saved__"] = {**env["__saved__"], pat["name"]: expr_text(it["args"][0])}
                elif pat.get("k") == "p_tuple":
                    for j, el in enumerate(pat.get("elems", [])):
                        if el.get("k") == "p_ident":
                            opt[el["name"]] = self.optness(init, env, opt, 0, j)
                            env.pop(el["name"], None)
            if node.get("else") is not None:
                self.walk_block(node["else"], env, opt, eff, depth)
            return
        if k == "expr_stmt":
            self.walk_block(node["e"], env, opt, eff, depth)
            return
        if k == "if":
            c = self.cond_value(node["cond"], env, opt)
            self.walk_block(node["cond"], env, opt, eff, depth)
            live = []
            if c is not False:
                live.append((node["then"], dict(env)))
            if c is not True:
                live.append((node.get("else"), dict(env)))
            self.walk_branches(live, opt, eff, depth)
            return
        if k == "match":
            self.walk_block(node["e"], env, opt, eff, depth)
            live = []
            for a in self.live_arms(node, env):
                env2 = dict(env)
                scr = self.val(node["e"], env)
                if scr is not UNKNOWN:
                    try:
                        self.it.bind(a["pat"], scr, env2)
                    except NotConst:
                        pass
                if a.get("guard") is not None:
                    self.walk_block(a["guard"], env2, opt, eff, depth)
                live.append((a["body"], env2))
            self.walk_branches(live, opt, eff, depth)
            return
        if k == "assign" and node["l"].get("k") == "path":
            self.walk_block(node["r"], env, opt, eff, depth)
            env.pop(node["l"]["p"], None)
            opt[node["l"]["p"]] = self.optness(node["r"], env, opt)      # strong update; branches are joined by walk_branches
            return
        if k in ("for", "while", "loop"):
            if self.zero and k == "for" and node.get("iter", {}).get("k") == "range":
                lo, hi = self.val(node["iter"].get("lo"), env), self.val(node["iter"].get("hi"), env)
                if lo is not UNKNOWN and hi is not UNKNOWN and isinstance(lo, int) and isinstance(hi, int) and hi <= lo:
                    return         # the body does not run
            # a loop body may run zero or more times: walk it on a copy and join with the state before it
            before = dict(opt)
            for key, v in node.items():
                if key in ("k", "ln", "src") or not isinstance(v, (dict, list)):
                    continue
                o2 = dict(opt)
                self._loop = getattr(self, "_loop", 0) + (1 if key == "body" else 0)
                self._undecided += 1
                try:
                    self.walk_block(v, dict(env), o2, eff, depth)
                finally:
                    self._loop -= (1 if key == "body" else 0)
                    self._undecided -= 1
                for nm in set(o2) | set(before):
                    if o2.get(nm) != before.get(nm):
                        opt[nm] = "maybe"
            return
        if k == "mcall":
            m = node["m"]
            recv = expr_text(node["recv"])
            if m == "set_reg" and len(node["args"]) >= 2 and node["args"][1].get("k") == "path" and env.get("__saved__", {}).get(node["args"][1]["p"]) == expr_text(node["args"][0]):
                pass        # restores the value read earlier from the same register
            elif m == "set_reg" and node["args"]:
                r = expr_text(node["args"][0])
                if r in ("RegName::FC", "RegName::FZ", "RegName::F"):
                    self._flags(eff, {"RegName::FC": {"C"}, "RegName::FZ": {"Z"}, "RegName::F": {"C", "Z"}}[r])
                elif r.startswith("RegName::"):
                    eff.regs.add(r.split("::")[-1])
                else:
                    v = self.val(node["args"][0], env)
                    if isinstance(v, tuple) and v and v[0] in ("some", "okv"):
                        v = v[1]
                    if isinstance(v, tuple) and v and v[0] == "sym" and v[1] in ("RegName::FC", "RegName::FZ", "RegName::F"):
                        self._flags(eff, {"RegName::FC": {"C"}, "RegName::FZ": {"Z"}, "RegName::F": {"C", "Z"}}[v[1]])
                    else:
                        eff.regs.add("<operand>")
            elif m == "get_reg" and node["args"] and expr_text(node["args"][0]).startswith("RegName::"):
                eff.reads.add(expr_text(node["args"][0]).split("::")[-1])
            elif m == "set_pc":
                eff.sets_pc = True
            elif m in ("store",) and recv == "bus":
                eff.stores = True
            elif recv == "self" and m in self.fns:
                self.descend(self.fns[m], node["args"], env, opt, eff, depth, has_self=True)
            for a in [node["recv"]] + list(node["args"]):
                self.walk_block(a, env, opt, eff, depth)
            return
        if k == "call":
            f = expr_text(node["f"])
            last = f.split("::")[-1]
            if last == "set_flags_for_result" and len(node["args"]) >= 3:
                self._flags(eff, {"Z"})
                if self.optness(node["args"][2], env, opt) != "none":
                    self._flags(eff, {"C"})
            elif last == "set_flags_cmp":
                self._flags(eff, {"C", "Z"})
            elif last in ("store_traced",):
                eff.stores = True
            elif last in ("push_stack", "pop_stack"):
                eff.stack = True
                if last == "push_stack":
                    eff.stores = True
            elif f.startswith("Self::") and last in self.fns:
                self.descend(self.fns[last], node["args"], env, opt, eff, depth, has_self=False)
            for a in node["args"]:
                self.walk_block(a, env, opt, eff, depth)
            return
        if k == "closure":
            self._undecided += 1
            try:
                self.walk_block(node["body"], dict(env), dict(opt), eff, depth)
            finally:
                self._undecided -= 1
            return
        if k == "return":
            if node.get("e") is not None:
                self.walk_block(node["e"], env, opt, eff, depth)
            if self.zero and self._undecided == 0:
                raise _Returned()
            return
        for key, v in node.items():
            if key in ("k", "ln", "src", "ty", "name", "p", "op", "m"):
                continue
            if isinstance(v, (dict, list)):
                self.walk_block(v, env, opt, eff, depth)

    def mutated_names(self, body: Any) -> frozenset:
        """locals assigned after their definition; in zero-trip mode the bodies of `for _ in 0..<byte count>` loops do not run and
        do not count"""
        counts = {n["pat"]["name"] for n in walk(body) if n.get("k") == "let" and n.get("init") is not None
                  and n.get("pat", {}).get("k") == "p_ident" and self._reads_count(n["init"])} if self.zero else set()
        out = set()

        def rec(n: Any) -> None:
            if isinstance(n, list):
                for x in n:
                    rec(x)
                return
            if not isinstance(n, dict):
                return
            if (counts and n.get("k") == "for" and n.get("iter", {}).get("k") == "range" and isinstance(n["iter"].get("hi"), dict)
                    and n["iter"]["hi"].get("k") == "path" and n["iter"]["hi"]["p"] in counts):
                return
            if n.get("k") in ("assign", "opassign") and n["l"].get("k") == "path":
                out.add(n["l"]["p"])
            if n.get("k") in ("assign", "opassign") and n["l"].get("k") == "unary" and n["l"].get("e", {}).get("k") == "path":
                out.add(n["l"]["e"]["p"])
            for v in n.values():
                if isinstance(v, (dict, list)):
                    rec(v)
        rec(body)
        return frozenset(out)

    def walk_branches(self, live: list, opt: dict, eff: Effects, depth: int) -> None:
        live = [(b, e) for b, e in live]
        if len(live) == 1:
            if live[0][0] is not None:
                self.walk_block(live[0][0], live[0][1], opt, eff, depth)
            return
        outs = []
        for body, env2 in live:
            o2 = dict(opt)
            if body is not None:
                self._undecided += 1
                try:
                    self.walk_block(body, env2, o2, eff, depth)
                finally:
                    self._undecided -= 1
            if body is None or not _diverges(body):
                outs.append(o2)
        if not outs:
            return
        for nm in set().union(*[set(o) for o in outs]):
            vals = {o.get(nm, "maybe") for o in outs}
            opt[nm] = vals.pop() if len(vals) == 1 else "maybe"

    def descend(self, fn: Any, args: list, env: dict, opt: dict, eff: Effects, depth: int, has_self: bool) -> None:
        if depth >= MAXDEPTH:
            raise AnalysisError(f"rs_effects: call depth exceeded at {fn.qual}")
        params = [p for p in fn.params() if p != "self"]
        env2: dict = {"__mutated__": self.mutated_names(fn.body)}
        opt2: dict = {}
        for p, a in zip(params, args):
            v = self.val(a, env)
            if v is not UNKNOWN:
                env2[p] = v
            opt2[p] = self.optness(a, env, opt)
        try:
            self.walk_block(fn.body, env2, opt2, eff, depth + 1)
        except _Returned:
            pass           # the callee returned early; the caller goes on

    @staticmethod
    def _reads_count(init: Any) -> bool:
        """`state.get_reg(RegName::I)`, possibly masked / cast"""
        it = init
        while isinstance(it, dict) and it.get("k") in ("binary", "paren", "cast"):
            it = it.get("l") or it.get("e")
        return isinstance(it, dict) and it.get("k") == "mcall" and it["m"] == "get_reg" and bool(it["args"]) and expr_text(it["args"][0]) == "RegName::I"

    # -- per row --------------------------------------------------------------
    def for_opcode(self, opcode: int, zero_trip: bool = False) -> Effects:
        """may-effects of the arm executing `opcode`; with zero_trip the byte count I reads as 0, loops over it do not run and a
        `return` under decided conditions ends the walk (flags_straight is then what the arm writes when I = 0)"""
        self.zero, self._undecided = zero_trip, 0
        try:
            return self._for_opcode(opcode)
        except _Returned:
            return self._eff
        finally:
            self.zero = False

    def _for_opcode(self, opcode: int) -> Effects:
        entry = self.table[opcode]
        env = {"entry": entry}
        kind = entry["kind"][1].split("::")[-1]
        eff = self._eff = Effects()
        for a in self.arms:
            if kind not in a["kinds"] and not a["wild"]:
                continue
            if a["guard"] is not None:
                g = self.val(a["guard"], env)
                if g is False:
                    continue
                if g is UNKNOWN:
                    raise AnalysisError(f"execute_with: guard of arm at line {a['ln']} is not decidable from the table row of opcode {opcode:#04x}")
            self.walk_block(a["body"], {**env, "__mutated__": self.mutated_names(a["body"])}, {}, eff, 0)
            return eff
        raise AnalysisError(f"execute_with: no arm for opcode {opcode:#04x} kind {kind}")


def _diverges(body: Any) -> bool:
    """Does the block end in return / unreachable!/panic! / break / continue (its value never reaches the join)?"""
    if not isinstance(body, dict):
        return False
    if body.get("k") in ("return", "break", "continue"):
        return True
    if body.get("k") == "macro" and body.get("name") in ("unreachable", "panic", "todo", "unimplemented"):
        return True
    if body.get("k") == "block" and body["stmts"]:
        last = body["stmts"][-1]
        if last.get("k") == "expr_stmt":
            return _diverges(last["e"])
    return False
