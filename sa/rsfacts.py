"""Rust front end: runs the syn-based dumper (tools/rsfacts) over the crate and
indexes the JSON syntax trees.  No Rust code of /repo is compiled or executed."""
from __future__ import annotations

import fcntl
import json
import os
import subprocess
from pathlib import Path
from typing import Any, Iterator

from .core import REPO, VERIF, AnalysisError

TOOL_DIR = VERIF / "tools" / "rsfacts"
BUILD_DIR = VERIF / ".build" / "rsfacts"
BIN = BUILD_DIR / "release" / "rsfacts"

CRATE_DIRS = ["sc62015/core/src"]


def ensure_built() -> Path:
    src_m = max(p.stat().st_mtime for p in [TOOL_DIR / "src" / "main.rs", TOOL_DIR / "Cargo.toml"])
    if BIN.exists() and BIN.stat().st_mtime >= src_m:
        return BIN
    BUILD_DIR.mkdir(parents=True, exist_ok=True)
    lock = open(BUILD_DIR / ".lock", "w")
    fcntl.flock(lock, fcntl.LOCK_EX)
    try:
        if BIN.exists() and BIN.stat().st_mtime >= src_m:
            return BIN
        env = dict(os.environ, CARGO_TARGET_DIR=str(BUILD_DIR), CARGO_NET_OFFLINE="true")
        r = subprocess.run(
            ["cargo", "build", "--offline", "--release", "--quiet"],
            cwd=TOOL_DIR, env=env, capture_output=True, text=True,
        )
        if r.returncode != 0 or not BIN.exists():
            raise AnalysisError("cannot build tools/rsfacts: " + (r.stderr or r.stdout)[-800:])
        return BIN
    finally:
        fcntl.flock(lock, fcntl.LOCK_UN)
        lock.close()


def walk(node: Any) -> Iterator[dict]:
    """Pre-order walk over every dict node of a tree."""
    stack = [node]
    while stack:
        n = stack.pop()
        if isinstance(n, dict):
            yield n
            for v in reversed(list(n.values())):
                if isinstance(v, (dict, list)):
                    stack.append(v)
        elif isinstance(n, list):
            for v in reversed(n):
                if isinstance(v, (dict, list)):
                    stack.append(v)


def strip_parens(e: dict) -> dict:
    while isinstance(e, dict) and e.get("k") in ("paren",):
        e = e["e"]
    return e


class RsFn:
    def __init__(self, file: str, qual: str, node: dict, impl_ty: str | None):
        self.file = file
        self.qual = qual
        self.node = node
        self.impl_ty = impl_ty
        self.name = node["name"]
        self.ln = node["ln"]
        self.body = node.get("body")
        self.cfg_test = bool(node.get("cfg_test"))

    @property
    def where(self) -> str:
        return f"{self.file}:{self.ln}"

    def params(self) -> list[str]:
        out = []
        for a in self.node.get("inputs", []):
            if "name" in a:
                out.append(a["name"])
            elif a.get("pat", {}).get("k") == "p_ident":
                out.append(a["pat"]["name"])
        return out


def canon_rs_temps(body: dict) -> int:
    """Canonical form used by every rule (the Rust twin of pyfacts.canon_temps): an immutable `let t = E;` whose only use is as the
    whole right-hand side of the very next statement (`x.f = t;`) or as the whole operand of the next `return t` / tail expression
    is folded away.  Both forms evaluate E first and nothing in between."""
    folds = 0
    while True:
        uses: dict[str, int] = {}
        binds: dict[str, int] = {}
        for n in walk(body):
            if n.get("k") == "path":
                uses[n["p"]] = uses.get(n["p"], 0) + 1
            if n.get("k") == "p_ident":
                binds[n["name"]] = binds.get(n["name"], 0) + 1
            if n.get("k") == "macro":
                # macro bodies are opaque token streams: a name mentioned there counts as used
                src = n.get("src", "") or ""
                for nm in set(__import__("re").findall(r"[A-Za-z_][A-Za-z0-9_]*", src)):
                    uses[nm] = uses.get(nm, 0) + 2
        done = False
        for blk in [n for n in walk(body) if isinstance(n.get("stmts"), list)]:
            sts = blk["stmts"]
            for i in range(len(sts) - 1):
                a, b = sts[i], sts[i + 1]
                if not (a.get("k") == "let" and a.get("init") is not None and a.get("else") is None and a["pat"].get("k") == "p_ident" and not a["pat"].get("mut") and a["pat"].get("sub") is None and not a["pat"].get("ty")):
                    continue
                t = a["pat"]["name"]
                if uses.get(t) != 1 or binds.get(t) != 1:
                    continue
                if b.get("k") != "expr_stmt" or not isinstance(b.get("e"), dict):
                    continue
                e = b["e"]
                if e.get("k") == "assign" and e["r"].get("k") == "path" and e["r"]["p"] == t and not any(x.get("k") == "path" and x["p"] == t for x in walk(e["l"])):
                    e["r"] = a["init"]
                elif e.get("k") == "return" and isinstance(e.get("e"), dict) and e["e"].get("k") == "path" and e["e"]["p"] == t:
                    e["e"] = a["init"]
                elif e.get("k") == "path" and e["p"] == t and not b.get("semi") and i + 1 == len(sts) - 1:
                    b["e"] = a["init"]
                else:
                    continue
                if "src" in b:
                    b["src"] = ""
                del sts[i]
                folds += 1
                done = True
                break
            if done:
                break
        if not done:
            return folds


class RustProgram:
    def __init__(self, repo: Path = REPO, dirs: list[str] | None = None):
        self.repo = repo
        binp = ensure_built()
        paths: list[Path] = []
        for d in dirs or CRATE_DIRS:
            base = repo / d
            if not base.is_dir():
                raise AnalysisError(f"rust source dir missing: {d}")
            paths += sorted(base.rglob("*.rs"))
        if not paths:
            raise AnalysisError("no rust sources found")
        r = subprocess.run([str(binp)] + [str(p) for p in paths], capture_output=True, text=True)
        if r.returncode != 0:
            raise AnalysisError("rsfacts failed: " + r.stderr[-500:])
        doc = json.loads(r.stdout)
        self.files: dict[str, dict] = {}
        self.fns: dict[tuple[str, str], RsFn] = {}
        self.consts: dict[tuple[str, str], dict] = {}
        self.enums: dict[tuple[str, str], dict] = {}
        self.structs: dict[tuple[str, str], dict] = {}
        self.n_fns = 0
        for f in doc["files"]:
            rel = str(Path(f["path"]).relative_to(repo))
            if not f.get("ok"):
                raise AnalysisError(f"rust file does not parse: {rel}: {f.get('error')}")
            self.files[rel] = f
            self._index(rel, f["items"], "", None, False)

    def _index(self, rel: str, items: list, prefix: str, impl_ty: str | None, in_test: bool) -> None:
        for it in items:
            k = it.get("k")
            test = in_test or bool(it.get("cfg_test"))
            if k == "fn":
                self.n_fns += 1
                it["cfg_test"] = test
                if it.get("body") is not None:
                    canon_rs_temps(it["body"])
                fn = RsFn(rel, prefix + it["name"], it, impl_ty)
                if not test:
                    # later duplicates (cfg variants) keep first
                    self.fns.setdefault((rel, fn.qual), fn)
            elif k in ("const", "static"):
                if not test:
                    self.consts.setdefault((rel, prefix + it["name"]), it)
            elif k == "enum":
                if not test:
                    self.enums[(rel, it["name"])] = it
            elif k == "struct":
                if not test:
                    self.structs[(rel, it["name"])] = it
            elif k == "impl":
                ty = it["self_ty"].split("<")[0].strip()
                self._index(rel, it["items"], prefix + ty + "::", ty, test)
            elif k == "mod" and it.get("items"):
                self._index(rel, it["items"], prefix + it["name"] + "::", None, test)
            elif k == "macro_items":
                self._index(rel, it["items"], prefix, impl_ty, test)

    # -- lookups ---------------------------------------------------------
    def file_for(self, suffix: str) -> str:
        hits = [f for f in self.files if f.endswith(suffix)]
        if len(hits) != 1:
            raise AnalysisError(f"rust file anchor {suffix!r} matches {hits}")
        return hits[0]

    def fn(self, file_suffix: str, qual: str) -> RsFn:
        rel = self.file_for(file_suffix)
        fn = self.fns.get((rel, qual))
        if fn is None:
            raise AnalysisError(f"rust fn anchor vanished: {rel}::{qual}")
        return fn

    def const(self, file_suffix: str, name: str) -> dict:
        rel = self.file_for(file_suffix)
        c = self.consts.get((rel, name))
        if c is None:
            raise AnalysisError(f"rust const anchor vanished: {rel}::{name}")
        return c

    def enum(self, file_suffix: str, name: str) -> dict:
        rel = self.file_for(file_suffix)
        e = self.enums.get((rel, name))
        if e is None:
            raise AnalysisError(f"rust enum anchor vanished: {rel}::{name}")
        return e

    def struct(self, file_suffix: str, name: str) -> dict:
        rel = self.file_for(file_suffix)
        e = self.structs.get((rel, name))
        if e is None:
            raise AnalysisError(f"rust struct anchor vanished: {rel}::{name}")
        return e

    def fns_in(self, file_suffix: str) -> list[RsFn]:
        rel = self.file_for(file_suffix)
        return [f for (r, _q), f in self.fns.items() if r == rel]

    # -- constant evaluation --------------------------------------------
    def eval_const(self, file_suffix: str, name: str) -> Any:
        rel = self.file_for(file_suffix)
        return RsConstEval(self, rel).eval(self.const(file_suffix, name)["e"])

    def evaluator(self, file_suffix: str, env: dict | None = None) -> "RsConstEval":
        return RsConstEval(self, self.file_for(file_suffix), env)


class NotConst(Exception):
    pass


_INT_TYPES = {"u8": 8, "u16": 16, "u32": 32, "u64": 64, "usize": 64, "i8": 8, "i16": 16, "i32": 32, "i64": 64, "isize": 64, "u128": 128}


class RsConstEval:
    """Evaluates Rust constant expressions: literals, arithmetic, casts, paths to
    other consts (same file first, then crate-wide by last segment when unique),
    tuples/arrays/refs/struct literals (as dicts), enum paths (as strings)."""

    def __init__(self, prog: RustProgram, rel: str, env: dict | None = None):
        self.prog = prog
        self.rel = rel
        self.env = env or {}
        self._depth = 0

    def lookup_const(self, path: str) -> Any:
        name = path.split("::")[-1]
        if path in self.env:
            return self.env[path]
        if name in self.env:
            return self.env[name]
        c = self.prog.consts.get((self.rel, path)) or self.prog.consts.get((self.rel, name))
        if c is not None:
            return RsConstEval(self.prog, self.rel).eval(c["e"])
        # impl-level or other-file const: unique by trailing name
        hits = [(r, q) for (r, q) in self.prog.consts if q.split("::")[-1] == name]
        if len(hits) >= 1:
            vals = []
            for r, q in hits:
                try:
                    vals.append(RsConstEval(self.prog, r).eval(self.prog.consts[(r, q)]["e"]))
                except NotConst:
                    pass
            if vals and all(v == vals[0] for v in vals):
                return vals[0]
            if len(vals) > 1:
                raise NotConst(f"ambiguous const {path}: {hits}")
        raise NotConst(f"unknown path {path}")

    def eval(self, e: dict) -> Any:
        self._depth += 1
        if self._depth > 200:
            raise NotConst("recursion")
        try:
            return self._eval(e)
        finally:
            self._depth -= 1

    def _eval(self, e: dict) -> Any:
        k = e.get("k")
        if k == "lit":
            t = e["t"]
            if t == "int":
                return int(e["v"])
            if t in ("str", "bool", "char"):
                return e["v"]
            if t == "float":
                return float(e["v"])
            if t == "bytes":
                return bytes(e["v"])
            raise NotConst("lit " + t)
        if k == "paren":
            return self.eval(e["e"])
        if k == "path":
            p = e["p"]
            if p in ("None",):
                return None
            if p in ("true", "false"):
                return p == "true"
            if p.endswith("::MAX") and p.split("::")[0] in _INT_TYPES:
                t = p.split("::")[0]
                bits = _INT_TYPES[t]
                return (1 << (bits - (1 if t.startswith("i") else 0))) - 1
            try:
                return self.lookup_const(p)
            except NotConst:
                # enum variant or unknown symbol: keep symbolic
                if "::" in p:
                    return ("sym", p)
                raise
        if k == "unary":
            v = self.eval(e["e"])
            op = e["op"]
            if op == "-":
                return -v
            if op == "!":
                if isinstance(v, bool):
                    return not v
                return ("not", v)
            if op == "*":
                return v
            raise NotConst("unary " + op)
        if k == "binary":
            a = self.eval(e["l"])
            b = self.eval(e["r"])
            op = e["op"]
            if isinstance(a, tuple) and a and a[0] == "not" and op == "&":
                # x & !mask with unknown width: treat as 64-bit
                a = (~a[1]) & 0xFFFFFFFFFFFFFFFF
            if isinstance(b, tuple) and b and b[0] == "not" and op == "&":
                b = (~b[1]) & 0xFFFFFFFFFFFFFFFF
            try:
                return {
                    "+": lambda: a + b, "-": lambda: a - b, "*": lambda: a * b,
                    "/": lambda: a // b, "%": lambda: a % b, "&": lambda: a & b,
                    "|": lambda: a | b, "^": lambda: a ^ b, "<<": lambda: a << b,
                    ">>": lambda: a >> b, "==": lambda: a == b, "!=": lambda: a != b,
                    "<": lambda: a < b, "<=": lambda: a <= b, ">": lambda: a > b,
                    ">=": lambda: a >= b, "&&": lambda: a and b, "||": lambda: a or b,
                }[op]()
            except (KeyError, TypeError) as ex:
                raise NotConst(f"binary {op}: {ex}")
        if k == "cast":
            v = self.eval(e["e"])
            ty = e["ty"].replace(" ", "")
            if isinstance(v, tuple) and v and v[0] == "not" and ty in _INT_TYPES:
                return (~v[1]) & ((1 << _INT_TYPES[ty]) - 1)
            if isinstance(v, bool):
                v = int(v)
            if isinstance(v, int) and ty in _INT_TYPES and ty.startswith("u"):
                return v & ((1 << _INT_TYPES[ty]) - 1)
            return v
        if k in ("tuple", "array"):
            return [self.eval(x) for x in e["elems"]]
        if k == "repeat":
            return [self.eval(e["e"])] * self.eval(e["len"])
        if k == "ref":
            return self.eval(e["e"])
        if k == "struct_lit":
            d = {"__struct__": e["p"].split("::")[-1]}
            for f in e["fields"]:
                d[f["name"]] = self.eval(f["e"])
            return d
        if k == "call":
            f = e["f"]
            if f.get("k") == "path":
                p = f["p"]
                args = [self.eval(a) for a in e["args"]]
                if p == "Some" and len(args) == 1:
                    return args[0]
                last = p.split("::")[-1]
                # tuple-struct / enum tuple-variant constructor: keep symbolic
                return ("ctor", p, args) if last[:1].isupper() else self._call_fn(p, args)
            raise NotConst("call")
        if k == "mcall":
            recv = self.eval(e["recv"])
            m = e["m"]
            args = [self.eval(a) for a in e["args"]]
            if m in ("wrapping_add",):
                return recv + args[0]
            if m in ("wrapping_sub", "saturating_sub"):
                return max(recv - args[0], 0) if m == "saturating_sub" else recv - args[0]
            if m == "len":
                return len(recv)
            if m in ("to_string", "into", "clone", "to_owned", "as_str"):
                return recv
            raise NotConst("mcall " + m)
        if k == "index":
            return self.eval(e["e"])[self.eval(e["i"])]
        if k == "field":
            v = self.eval(e["e"])
            if isinstance(v, dict):
                return v[e["name"]]
            if isinstance(v, list):
                return v[int(e["name"])]
            raise NotConst("field")
        if k == "block" and len(e["stmts"]) == 1 and e["stmts"][0]["k"] == "expr_stmt":
            return self.eval(e["stmts"][0]["e"])
        if k == "macro" and e.get("name") == "vec" and "args" in e:
            return [self.eval(a) for a in e["args"]]
        if k == "range":
            lo = self.eval(e["lo"]) if e.get("lo") else 0
            hi = self.eval(e["hi"])
            return range(lo, hi + (1 if e.get("closed") else 0))
        raise NotConst(f"unsupported {k}")

    def _call_fn(self, path: str, args: list) -> Any:
        raise NotConst(f"call to fn {path}")


def src(e: dict | None) -> str:
    """Normalised source text of a node when the dumper kept it."""
    if not e:
        return ""
    return e.get("src") or e.get("cond_src") or e.get("e_src") or e.get("pat_src") or e.get("p") or ""


def calls_in(node: Any) -> Iterator[dict]:
    for n in walk(node):
        if n.get("k") in ("call", "mcall"):
            yield n


def callee_name(n: dict) -> str:
    if n["k"] == "mcall":
        return n["m"]
    f = n["f"]
    if f.get("k") == "path":
        return f["p"]
    return ""


def expr_text(e: Any) -> str:
    """Reconstruct a compact, whitespace-free text for an expression tree (used for
    stable keys and for structural equality of small expressions)."""
    if e is None:
        return ""
    if isinstance(e, list):
        return ",".join(expr_text(x) for x in e)
    k = e.get("k")
    if k == "lit":
        if e["t"] == "bool":
            return "true" if e["v"] else "false"
        return str(e["v"]) if e["t"] != "str" else json.dumps(e["v"])
    if k == "path":
        return e["p"]
    if k == "paren":
        return "(" + expr_text(e["e"]) + ")"
    if k == "binary":
        return f"{expr_text(e['l'])}{e['op']}{expr_text(e['r'])}"
    if k == "opassign":
        return f"{expr_text(e['l'])}{e['op']}={expr_text(e['r'])}"
    if k == "assign":
        return f"{expr_text(e['l'])}={expr_text(e['r'])}"
    if k == "unary":
        return e["op"] + expr_text(e["e"])
    if k == "field":
        return f"{expr_text(e['e'])}.{e['name']}"
    if k == "index":
        return f"{expr_text(e['e'])}[{expr_text(e['i'])}]"
    if k == "call":
        return f"{expr_text(e['f'])}({expr_text(e['args'])})"
    if k == "mcall":
        return f"{expr_text(e['recv'])}.{e['m']}({expr_text(e['args'])})"
    if k == "cast":
        return f"{expr_text(e['e'])} as {e['ty']}"
    if k == "ref":
        return "&" + ("mut " if e.get("mut") else "") + expr_text(e["e"])
    if k == "try":
        return expr_text(e["e"]) + "?"
    if k == "tuple":
        return "(" + expr_text(e["elems"]) + ")"
    if k == "array":
        return "[" + expr_text(e["elems"]) + "]"
    if k == "matches":
        return f"matches!({expr_text(e['e'])},{pat_text(e['pat'])}" + (f" if {expr_text(e['guard'])}" if e.get("guard") else "") + ")"
    if k == "macro":
        if "args" in e:
            return f"{e['name']}!({expr_text(e['args'])})"
        return f"{e['name']}!({e.get('tokens', '')})"
    if k == "return":
        return "return " + expr_text(e.get("e"))
    if k == "struct_lit":
        return e["p"] + "{" + ",".join(f"{f['name']}:{expr_text(f['e'])}" for f in e["fields"]) + "}"
    if k == "let_cond":
        return f"let {pat_text(e['pat'])}={expr_text(e['e'])}"
    if k == "range":
        return f"{expr_text(e.get('lo'))}..{'=' if e.get('closed') else ''}{expr_text(e.get('hi'))}"
    if k == "if":
        return f"if {expr_text(e['cond'])}{{..}}"
    if k == "match":
        return f"match {expr_text(e['e'])}{{..}}"
    if k == "block":
        return "{..}"
    if k == "closure":
        return "|..|" + expr_text(e["body"])
    if k == "break":
        return "break"
    if k == "continue":
        return "continue"
    return f"<{k}>"


def pat_text(p: Any) -> str:
    if p is None:
        return ""
    if isinstance(p, list):
        return ",".join(pat_text(x) for x in p)
    k = p.get("k")
    if k == "p_ident":
        return p["name"] + ("@" + pat_text(p["sub"]) if p.get("sub") else "")
    if k == "p_lit":
        return expr_text(p["e"])
    if k == "p_or":
        return "|".join(pat_text(x) for x in p["cases"])
    if k == "p_path":
        return p["p"]
    if k == "p_wild":
        return "_"
    if k == "p_rest":
        return ".."
    if k == "p_tuple":
        return "(" + pat_text(p["elems"]) + ")"
    if k == "p_tstruct":
        return p["p"] + "(" + pat_text(p["elems"]) + ")"
    if k == "p_struct":
        return p["p"] + "{" + ",".join(f"{f['name']}:{pat_text(f['pat'])}" for f in p["fields"]) + (",.." if p.get("rest") else "") + "}"
    if k == "p_range":
        return f"{expr_text(p.get('lo'))}..{'=' if p.get('closed') else ''}{expr_text(p.get('hi'))}"
    if k == "p_slice":
        return "[" + pat_text(p["elems"]) + "]"
    return f"<{k}>"


# ---------------------------------------------------------------------------
# Pure-function folding over finite domains (helper fns such as
# map_chip_col_to_display_col, regpair_name, normalize_ext_reg_mode ...)

class _RsReturn(Exception):
    def __init__(self, v: Any):
        self.v = v


class RsRef:
    """&mut place: (container dict/list, key)"""
    __slots__ = ("box", "key")

    def __init__(self, box: Any, key: Any):
        self.box, self.key = box, key

    def get(self) -> Any:
        return self.box[self.key]

    def set(self, v: Any) -> None:
        self.box[self.key] = v


class _RsBreak(Exception):
    pass


class _RsContinue(Exception):
    pass


class RsInterp:
    """Folds a *pure* Rust fn body for concrete arguments: let, if/else, match on
    literals/ranges/paths/tuples with guards, casts, arithmetic, Some/None, tuples,
    early return, `matches!`, method calls of the integer API.  Anything else -> NotConst."""

    def __init__(self, prog: RustProgram, file_suffix: str):
        self.prog = prog
        self.rel = prog.file_for(file_suffix)
        self.suffix = file_suffix

    def _write_back(self, outer: dict, inner: dict, pat: dict) -> None:
        """Assignments made inside an arm / if-let body to variables of the enclosing scope persist."""
        bound = {n["name"] for n in walk(pat) if n.get("k") == "p_ident"}
        for k_ in list(outer.keys()):
            if k_ in inner and k_ not in bound:
                outer[k_] = inner[k_]

    def mcall_hook(self, recv: Any, m: str, args: list, env: dict, e: dict) -> Any:
        return NotImplemented

    def call_hook(self, path: str, args: list, env: dict, e: dict) -> Any:
        return NotImplemented

    def call(self, qual: str, args: list) -> Any:
        fn = self.prog.fns.get((self.rel, qual))
        if fn is None:
            raise NotConst(f"fn {qual} not found")
        params = [p for p in fn.params() if p != "self"]
        if len(params) != len(args):
            raise NotConst(f"arity mismatch calling {qual}")
        env = dict(zip(params, args))
        try:
            return self.block(fn.body, env)
        except _RsReturn as r:
            return r.v

    def block(self, blk: dict, env: dict) -> Any:
        last = None
        for st in blk["stmts"]:
            k = st["k"]
            if k == "let":
                v = self.ev(st["init"], env) if st.get("init") is not None else None
                if not self.bind(st["pat"], v, env):
                    if st.get("else") is not None:
                        self.ev(st["else"], env)
                    raise NotConst("let pattern did not match")
                last = None
            elif k == "expr_stmt":
                v = self.ev(st["e"], env)
                last = None if st.get("semi") or st["e"].get("k") in ("for", "while", "loop", "assign", "opassign") else v
            elif k == "item_stmt":
                continue
            else:
                raise NotConst(f"stmt {k}")
        return last

    def bind(self, pat: dict, v: Any, env: dict) -> bool:
        k = pat.get("k")
        if k == "p_wild":
            return True
        if k == "p_ident":
            if pat.get("sub") is not None and not self.bind(pat["sub"], v, env):
                return False
            env[pat["name"]] = v
            return True
        if k == "p_lit":
            return self.ev(pat["e"], env) == v
        if k == "p_or":
            return any(self.bind(c, v, env) for c in pat["cases"])
        if k == "p_range":
            lo = self.ev(pat["lo"], env) if pat.get("lo") else None
            hi = self.ev(pat["hi"], env) if pat.get("hi") else None
            if lo is not None and v < lo:
                return False
            if hi is not None and (v > hi if pat.get("closed") else v >= hi):
                return False
            return True
        if k == "p_path":
            p = pat["p"]
            if p == "None":
                return v is None
            try:
                c = RsConstEval(self.prog, self.rel).lookup_const(p)
                return c == v
            except NotConst:
                return v == ("sym", p) or (isinstance(v, tuple) and v and v[0] == "sym" and v[1].split("::")[-1] == p.split("::")[-1])
        if k == "p_tuple":
            if not isinstance(v, (list, tuple)) or len(v) != len(pat["elems"]):
                return False
            return all(self.bind(p, x, env) for p, x in zip(pat["elems"], v))
        if k == "p_tstruct":
            if pat["p"] == "Some":
                if v is None:
                    return False
                inner = v[1] if isinstance(v, tuple) and v and v[0] == "some" else v
                return self.bind(pat["elems"][0], inner, env)
            if isinstance(v, tuple) and v and v[0] == "ctor" and v[1].split("::")[-1] == pat["p"].split("::")[-1]:
                return all(self.bind(p, x, env) for p, x in zip(pat["elems"], v[2]))
            return False
        raise NotConst(f"pattern {k}")

    def ev(self, e: dict, env: dict) -> Any:
        k = e.get("k")
        if k == "path" and e["p"] in env:
            return env[e["p"]]
        if k in ("lit",):
            return RsConstEval(self.prog, self.rel).eval(e)
        if k == "path":
            return RsConstEval(self.prog, self.rel, env).eval(e)
        if k == "paren":
            return self.ev(e["e"], env)
        if k == "block":
            return self.block(e, env)
        if k == "if":
            c = e["cond"]
            if c.get("k") == "let_cond":
                env2 = dict(env)
                if self.bind(c["pat"], self.ev(c["e"], env), env2):
                    try:
                        return self.block(e["then"], env2)
                    finally:
                        self._write_back(env, env2, c["pat"])
                return self.ev(e["else"], env) if e.get("else") else None
            if self.ev(c, env):
                return self.block(e["then"], env)
            return self.ev(e["else"], env) if e.get("else") else None
        if k == "match":
            v = self.ev(e["e"], env)
            for arm in e["arms"]:
                env2 = dict(env)
                if self.bind(arm["pat"], v, env2):
                    if arm.get("guard") is not None and not self.ev(arm["guard"], env2):
                        continue
                    try:
                        return self.ev(arm["body"], env2)
                    finally:
                        self._write_back(env, env2, arm["pat"])
            raise NotConst("non-exhaustive match while folding")
        if k == "return":
            raise _RsReturn(self.ev(e["e"], env) if e.get("e") else None)
        if k == "for":
            it = self.ev(e["iter"], env)
            n_it = 0
            for item in list(it):
                n_it += 1
                if n_it > 100000:
                    raise NotConst("loop bound")
                if not self.bind(e["pat"], item, env):
                    raise NotConst("for pattern did not match")
                try:
                    self.block(e["body"], env)
                except _RsContinue:
                    continue
                except _RsBreak:
                    break
            return None
        if k == "while":
            n_it = 0
            while True:
                c = e["cond"]
                if c.get("k") == "let_cond":
                    if not self.bind(c["pat"], self.ev(c["e"], env), env):
                        break
                elif not self.ev(c, env):
                    break
                n_it += 1
                if n_it > 100000:
                    raise NotConst("loop bound")
                try:
                    self.block(e["body"], env)
                except _RsContinue:
                    continue
                except _RsBreak:
                    break
            return None
        if k == "break":
            raise _RsBreak()
        if k == "continue":
            raise _RsContinue()
        if k == "closure":
            return ("closure", e, env)
        if k == "index":
            base = self.ev(e["e"], env)
            idx = self.ev(e["i"], env)
            if isinstance(base, RsRef):
                base = base.get()
            return base[idx]
        if k == "matches":
            env2 = dict(env)
            ok = self.bind(e["pat"], self.ev(e["e"], env), env2)
            return bool(ok and (e.get("guard") is None or self.ev(e["guard"], env2)))
        if k == "unary":
            v = self.ev(e["e"], env)
            if e["op"] == "*" and isinstance(v, RsRef):
                return v.get()
            if e["op"] == "*" and isinstance(v, tuple) and v and v[0] == "some":
                return v[1]
            return {"-": lambda: -v, "!": lambda: (not v) if isinstance(v, bool) else ~v, "*": lambda: v}[e["op"]]()
        if k == "binary":
            op = e["op"]
            a = self.ev(e["l"], env)
            if op == "&&":
                return bool(a) and bool(self.ev(e["r"], env))
            if op == "||":
                return bool(a) or bool(self.ev(e["r"], env))
            b = self.ev(e["r"], env)
            return {"+": lambda: a + b, "-": lambda: a - b, "*": lambda: a * b, "/": lambda: a // b, "%": lambda: a % b,
                    "&": lambda: a & b, "|": lambda: a | b, "^": lambda: a ^ b, "<<": lambda: a << b, ">>": lambda: a >> b,
                    "==": lambda: a == b, "!=": lambda: a != b, "<": lambda: a < b, "<=": lambda: a <= b,
                    ">": lambda: a > b, ">=": lambda: a >= b}[op]()
        if k == "cast":
            v = self.ev(e["e"], env)
            ty = e["ty"].replace(" ", "")
            if isinstance(v, bool):
                v = int(v)
            if isinstance(v, int) and ty in _INT_TYPES:
                bits = _INT_TYPES[ty]
                v &= (1 << bits) - 1
                if ty.startswith("i") and v >> (bits - 1):
                    v -= 1 << bits
            elif hasattr(v, "bits") and ty in _INT_TYPES and ty.startswith("u"):
                v = v & ((1 << min(_INT_TYPES[ty], 40)) - 1)
            return v
        if k == "let_cond":
            return self.bind(e["pat"], self.ev(e["e"], env), env)
        if k == "tuple":
            return tuple(self.ev(x, env) for x in e["elems"])
        if k == "ref":
            inner = e["e"]
            if e.get("mut") and inner.get("k") == "field":
                box = self.ev(inner["e"], env)
                if isinstance(box, RsRef):
                    box = box.get()
                if isinstance(box, dict):
                    return RsRef(box, inner["name"])
            if e.get("mut") and inner.get("k") == "index":
                box = self.ev(inner["e"], env)
                if isinstance(box, (list, dict)):
                    return RsRef(box, self.ev(inner["i"], env))
            return self.ev(inner, env)
        if k == "call":
            f = e["f"]
            if f.get("k") == "path":
                p = f["p"]
                args = [self.ev(a, env) for a in e["args"]]
                hooked = self.call_hook(p, args, env, e)
                if hooked is not NotImplemented:
                    return hooked
                if p == "Some":
                    return ("some", args[0])
                if p == "Ok":
                    return ("okv", args[0] if args else None)
                if p == "Err":
                    return ("err", args[0] if args else None)
                if p.startswith("Self::") or (self.rel, p) in self.prog.fns:
                    q = p.replace("Self::", "")
                    cands = [qq for (r, qq) in self.prog.fns if r == self.rel and (qq == q or qq.endswith("::" + q))]
                    if len(cands) == 1:
                        return self.call(cands[0], args)
                last = p.split("::")[-1]
                if last[:1].isupper():
                    return ("ctor", p, args)
            raise NotConst(f"call {expr_text(e)}")
        if k == "mcall":
            recv = self.ev(e["recv"], env)
            args = [self.ev(a, env) for a in e["args"]]
            m = e["m"]
            hooked = self.mcall_hook(recv, m, args, env, e)
            if hooked is not NotImplemented:
                return hooked
            if recv == "SELF":
                cands = [qq for (r, qq) in self.prog.fns if r == self.rel and qq.endswith("::" + m)]
                if len(cands) == 1:
                    return self.call(cands[0], args)
                raise NotConst(f"self.{m}: {len(cands)} candidates")
            if isinstance(recv, RsRef) and m not in ("get", "set"):
                recv = recv.get()
            if m in ("iter", "iter_mut", "into_iter", "clone", "cloned", "copied", "as_ref", "as_mut", "to_vec", "collect", "as_deref", "by_ref", "to_owned"):
                return recv
            if m == "enumerate":
                return list(enumerate(recv))
            if m == "rev":
                return list(reversed(list(recv)))
            if m in ("filter", "find", "position", "map", "any", "all", "is_some_and", "and_then", "or_else", "unwrap_or_else", "filter_map") and args and isinstance(args[0], tuple) and args[0] and args[0][0] == "closure":
                clo = args[0]

                def call_clo(*xs: Any) -> Any:
                    _t, node, cenv = clo
                    env2 = dict(cenv)
                    for ppat, x in zip(node["params"], xs):
                        if not self.bind(ppat, x, env2):
                            raise NotConst("closure parameter pattern")
                    try:
                        return self.ev(node["body"], env2)
                    except _RsReturn as r:
                        return r.v
                if m == "filter":
                    return [x for x in recv if call_clo(x)]
                if m == "find":
                    for x in recv:
                        if call_clo(x):
                            return ("some", x)
                    return None
                if m == "position":
                    for i_, x in enumerate(recv):
                        if call_clo(x):
                            return ("some", i_)
                    return None
                if m == "any":
                    return any(call_clo(x) for x in recv)
                if m == "all":
                    return all(call_clo(x) for x in recv)
                if m == "map":
                    if recv is None:
                        return None
                    if isinstance(recv, tuple) and recv and recv[0] == "some":
                        return ("some", call_clo(recv[1]))
                    if isinstance(recv, tuple) and recv and recv[0] in ("okv", "err"):
                        return ("okv", call_clo(recv[1])) if recv[0] == "okv" else recv
                    return [call_clo(x) for x in recv]
                if m == "is_some_and":
                    return recv is not None and bool(call_clo(recv[1] if isinstance(recv, tuple) and recv[0] == "some" else recv))
                if m == "and_then":
                    return None if recv is None else call_clo(recv[1] if isinstance(recv, tuple) and recv[0] == "some" else recv)
                if m == "or_else":
                    return recv if recv is not None else call_clo()
                if m == "unwrap_or_else":
                    return call_clo() if recv is None else (recv[1] if isinstance(recv, tuple) and recv[0] == "some" else recv)
            if m == "count":
                return len(list(recv))
            if m == "len":
                return len(recv)
            if m == "first":
                return ("some", recv[0]) if recv else None
            if m == "is_none":
                return recv is None
            if m == "is_some":
                return recv is not None
            if m == "is_empty":
                return len(recv) == 0
            if m == "contains" and isinstance(recv, (list, tuple)):
                return args[0] in recv
            if m == "ok_or":
                return ("err", args[0]) if recv is None else ("okv", recv[1] if isinstance(recv, tuple) and recv and recv[0] == "some" else recv)
            if m == "or":
                return recv if recv is not None else args[0]
            if m == "unwrap":
                if recv is None or (isinstance(recv, tuple) and recv and recv[0] == "err"):
                    raise NotConst("unwrap on None/Err")
                return recv[1] if isinstance(recv, tuple) and recv and recv[0] in ("some", "okv") else recv
            if m in ("saturating_mul", "wrapping_mul"):
                return recv * args[0]
            if m == "wrapping_add_signed":
                return recv + args[0]
            if m == "push" and isinstance(recv, list):
                recv.append(args[0])
                return None
            if m in ("wrapping_add", "saturating_add"):
                return recv + args[0]
            if m == "wrapping_sub":
                return recv - args[0]
            if m == "saturating_sub":
                return max(recv - args[0], 0)
            if m == "div_ceil":
                return -(-recv // args[0])
            if m in ("min", "max"):
                return min(recv, args[0]) if m == "min" else max(recv, args[0])
            if m == "contains" and isinstance(recv, range):
                return args[0] in recv
            if m in ("unwrap_or",):
                return args[0] if recv is None else (recv[1] if isinstance(recv, tuple) and recv and recv[0] == "some" else recv)
            raise NotConst(f"method {m}")
        if k == "range":
            lo = self.ev(e["lo"], env) if e.get("lo") else 0
            hi = self.ev(e["hi"], env)
            return range(lo, hi + (1 if e.get("closed") else 0))
        if k == "macro" and e.get("name") in ("unreachable", "panic"):
            raise NotConst("diverges")
        if k == "try":
            v = self.ev(e["e"], env)
            if v is None:
                raise _RsReturn(None)
            if isinstance(v, tuple) and v and v[0] == "err":
                raise _RsReturn(v)
            return v[1] if isinstance(v, tuple) and v and v[0] in ("some", "okv") else v
        if k == "struct_lit":
            d = {"__struct__": e["p"].split("::")[-1]}
            for f in e["fields"]:
                d[f["name"]] = self.ev(f["e"], env)
            return d
        if k == "field":
            v = self.ev(e["e"], env)
            if isinstance(v, dict):
                return v[e["name"]]
            if isinstance(v, (tuple, list)):
                return v[int(e["name"])]
            raise NotConst("field access")
        if k == "assign" and e["l"].get("k") == "path":
            env[e["l"]["p"]] = self.ev(e["r"], env)
            return None
        if k == "assign" and e["l"].get("k") == "field":
            box = self.ev(e["l"]["e"], env)
            if isinstance(box, RsRef):
                box = box.get()
            if not isinstance(box, dict):
                raise NotConst("field store on non-struct")
            box[e["l"]["name"]] = self.ev(e["r"], env)
            return None
        if k == "assign" and e["l"].get("k") == "unary" and e["l"]["op"] == "*":
            ref = self.ev(e["l"]["e"], env)
            if not isinstance(ref, RsRef):
                raise NotConst("store through a non-reference")
            ref.set(self.ev(e["r"], env))
            return None
        if k == "assign" and e["l"].get("k") == "index":
            box = self.ev(e["l"]["e"], env)
            box[self.ev(e["l"]["i"], env)] = self.ev(e["r"], env)
            return None
        if k == "opassign" and e["l"].get("k") == "field":
            box = self.ev(e["l"]["e"], env)
            if isinstance(box, RsRef):
                box = box.get()
            a, b = box[e["l"]["name"]], self.ev(e["r"], env)
            box[e["l"]["name"]] = {"+": lambda: a + b, "-": lambda: a - b, "&": lambda: a & b, "|": lambda: a | b, "^": lambda: a ^ b,
                                   "<<": lambda: a << b, ">>": lambda: a >> b, "*": lambda: a * b}[e["op"]]()
            return None
        if k == "opassign" and e["l"].get("k") == "path":
            a, b = env[e["l"]["p"]], self.ev(e["r"], env)
            env[e["l"]["p"]] = {"+": lambda: a + b, "-": lambda: a - b, "&": lambda: a & b, "|": lambda: a | b, "^": lambda: a ^ b,
                                "<<": lambda: a << b, ">>": lambda: a >> b, "*": lambda: a * b}[e["op"]]()
            return None
        raise NotConst(f"expr {k}")
