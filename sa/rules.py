"""Shared helpers for rule modules: local definitions (flow-insensitive reaching
definitions inside one function), leaf provenance, guard rendering, site search."""
from __future__ import annotations

import ast
from typing import Any, Callable, Iterable, Iterator

from . import cfg as cfgmod
from .pyfacts import attr_chain, unparse
from .rsfacts import expr_text, pat_text, walk

OPAQUE = "<opaque>"


# ---------------------------------------------------------------------------
# Rust

def rs_defs(body: Any) -> dict[str, list[Any]]:
    """name -> list of defining expressions (or OPAQUE) for every local binding /
    assignment in a fn body (closures included: they share the environment)."""
    defs: dict[str, list[Any]] = {}

    def bind(pat: dict, init: Any) -> None:
        k = pat.get("k")
        if k == "p_ident":
            defs.setdefault(pat["name"], []).append(init if init is not None else OPAQUE)
            if pat.get("sub"):
                bind(pat["sub"], OPAQUE)
        elif k in ("p_tuple",):
            inits = None
            if isinstance(init, dict) and init.get("k") == "tuple" and len(init["elems"]) == len(pat["elems"]):
                inits = init["elems"]
            for i, sub in enumerate(pat["elems"]):
                bind(sub, inits[i] if inits else ("tuple-elem", i, init))
        elif k in ("p_tstruct",):
            for i, sub in enumerate(pat["elems"]):
                bind(sub, ("variant-elem", pat["p"], i, init))
        elif k == "p_struct":
            for f in pat["fields"]:
                bind(f["pat"], ("field", f["name"], init))
        elif k in ("p_or",):
            for c in pat["cases"]:
                bind(c, init)
        elif k in ("p_slice",):
            for sub in pat["elems"]:
                bind(sub, OPAQUE)

    for n in walk(body):
        k = n.get("k")
        if k == "let":
            bind(n["pat"], n.get("init"))
        elif k == "let_cond":
            bind(n["pat"], n.get("e"))
        elif k == "assign" and n["l"].get("k") == "path":
            defs.setdefault(n["l"]["p"], []).append(n["r"])
        elif k == "opassign" and n["l"].get("k") == "path":
            defs.setdefault(n["l"]["p"], []).append(("opassign", n["op"], n["r"]))
        elif k == "for":
            bind(n["pat"], ("iter-elem", n["iter"]))
        elif k == "arm":
            bind(n["pat"], OPAQUE)
        elif k == "closure":
            for p in n["params"]:
                bind(p, OPAQUE)
    return defs


def rs_leaves(e: Any, defs: dict[str, list[Any]], depth: int = 6, _seen: set | None = None) -> set[str]:
    """Paths, field chains, method names and integer literals an expression is built
    from, following local definitions up to `depth`."""
    out: set[str] = set()
    _seen = _seen if _seen is not None else set()
    if e is None or e == OPAQUE:
        return out
    if isinstance(e, tuple):
        for x in e:
            if isinstance(x, (dict, tuple)):
                out |= rs_leaves(x, defs, depth, _seen)
            elif isinstance(x, str):
                out.add(f"<{x}>")
        return out
    for n in walk(e):
        k = n.get("k")
        if k == "path":
            p = n["p"]
            if p in defs and depth > 0 and p not in _seen:
                _seen.add(p)
                for d in defs[p]:
                    out |= rs_leaves(d, defs, depth - 1, _seen)
                _seen.discard(p)
            else:
                out.add(p)
        elif k == "field":
            out.add(expr_text(n))
        elif k == "mcall":
            out.add("." + n["m"] + "()")
        elif k == "lit" and n["t"] == "int":
            out.add("#" + str(n["v"]))
    return out


def rs_guard_text(g: tuple) -> str:
    atom, pol, origin = g
    if isinstance(atom, dict):
        t = expr_text(atom)
    elif isinstance(atom, tuple):
        tag = atom[0]
        if tag == "let-else":
            t = f"let {pat_text(atom[1])} = {expr_text(atom[2])}"
        elif tag == "arm":
            t = f"match {expr_text(atom[1])} => {pat_text(atom[2])}" + (f" if {expr_text(atom[3])}" if atom[3] else "")
        elif tag == "try-ok":
            t = f"{expr_text(atom[1])}? ok"
        elif tag == "for-has-next":
            t = f"for-next {expr_text(atom[1])}"
        else:
            t = str(tag)
    else:
        t = str(atom)
    return ("" if pol else "NOT ") + t


def rs_sites(body: Any, pred: Callable[[dict], bool]) -> list[dict]:
    return [n for n in walk(body) if pred(n)]


def rs_is_mcall(n: dict, method: str, recv_text: str | None = None) -> bool:
    return n.get("k") == "mcall" and n["m"] == method and (recv_text is None or expr_text(n["recv"]) == recv_text)


def rs_is_call(n: dict, path_suffix: str) -> bool:
    return n.get("k") == "call" and n["f"].get("k") == "path" and (n["f"]["p"] == path_suffix or n["f"]["p"].endswith("::" + path_suffix))


def rs_closures(body: Any) -> list[dict]:
    return [n for n in walk(body) if n.get("k") == "closure"]


def rs_bit_test(atom: Any, pol: bool, const_eval: Callable[[dict], Any]) -> tuple[dict, int] | None:
    """Recognise `(X & M) != 0` (pol True) / `(X & M) == 0` (pol False) / `X & M != 0`
    (Rust precedence: `&` binds tighter than `!=`): returns (X-expression, M-value)."""
    if not isinstance(atom, dict):
        return None
    e = atom
    while e.get("k") == "paren":
        e = e["e"]
    if e.get("k") != "binary" or e["op"] not in ("!=", "==", ">"):
        return None
    want_nonzero = (e["op"] in ("!=", ">")) == pol
    if not want_nonzero:
        return None
    l, r = e["l"], e["r"]
    while l.get("k") == "paren":
        l = l["e"]
    try:
        if const_eval(r) != 0:
            return None
    except Exception:
        return None
    if l.get("k") != "binary" or l["op"] != "&":
        return None
    for x, m in ((l["l"], l["r"]), (l["r"], l["l"])):
        try:
            mv = const_eval(m)
        except Exception:
            continue
        if isinstance(mv, int):
            return x, mv
    return None


# ---------------------------------------------------------------------------
# Python

def py_defs(fn: ast.AST) -> dict[str, list[Any]]:
    defs: dict[str, list[Any]] = {}

    def bind(t: ast.AST, v: Any) -> None:
        if isinstance(t, ast.Name):
            defs.setdefault(t.id, []).append(v)
        elif isinstance(t, ast.Attribute):
            ch = attr_chain(t)
            if ch:
                defs.setdefault(ch, []).append(v)
        elif isinstance(t, ast.Starred):
            bind(t.value, v)
        elif isinstance(t, (ast.Tuple, ast.List)):
            vals = v.elts if isinstance(v, (ast.Tuple, ast.List)) and len(v.elts) == len(t.elts) else None
            for i, sub in enumerate(t.elts):
                bind(sub, vals[i] if vals else ("unpack", i, v))

    for n in ast.walk(fn):
        if isinstance(n, ast.Assign):
            for t in n.targets:
                bind(t, n.value)
        elif isinstance(n, ast.AnnAssign) and n.value is not None:
            bind(n.target, n.value)
        elif isinstance(n, ast.AugAssign):
            bind(n.target, ("augassign", type(n.op).__name__, n.value))
        elif isinstance(n, (ast.For, ast.AsyncFor)):
            bind(n.target, ("iter-elem", n.iter))
        elif isinstance(n, ast.NamedExpr):
            bind(n.target, n.value)
        elif isinstance(n, (ast.With, ast.AsyncWith)):
            for it in n.items:
                if it.optional_vars is not None:
                    bind(it.optional_vars, OPAQUE)
    if isinstance(fn, (ast.FunctionDef, ast.AsyncFunctionDef)):
        for a in fn.args.posonlyargs + fn.args.args + fn.args.kwonlyargs:
            defs.setdefault(a.arg, []).append(("param", a.arg))
    return defs


def py_leaves(e: Any, defs: dict[str, list[Any]], depth: int = 6, _seen: set | None = None) -> set[str]:
    out: set[str] = set()
    _seen = _seen if _seen is not None else set()
    if e is None or e == OPAQUE:
        return out
    if isinstance(e, tuple):
        for x in e:
            if isinstance(x, (ast.AST, tuple)):
                out |= py_leaves(x, defs, depth, _seen)
            elif isinstance(x, str):
                out.add(f"<{x}>")
        return out
    skip: set[int] = set()
    for n in ast.walk(e):
        if id(n) in skip:
            continue
        if isinstance(n, ast.Attribute):
            ch = attr_chain(n)
            if ch:
                for sub in ast.walk(n):
                    skip.add(id(sub))
                parts = ch.split(".")
                pref = None
                for i in range(len(parts), 0, -1):
                    cand = ".".join(parts[:i])
                    if cand in defs and not (i == 1 and cand == "self"):
                        pref = cand
                        break
                if pref is not None and depth > 0 and pref not in _seen:
                    _seen.add(pref)
                    for d in defs[pref]:
                        out |= py_leaves(d, defs, depth - 1, _seen)
                    _seen.discard(pref)
                    if pref != ch:
                        out.add("." + ch[len(pref) + 1:])
                    if parts[0] == "self":
                        out.add(ch)  # object fields are storage as well as definitions
                else:
                    out.add(ch)
        elif isinstance(n, ast.Name):
            if n.id in defs and depth > 0 and n.id not in _seen:
                _seen.add(n.id)
                for d in defs[n.id]:
                    out |= py_leaves(d, defs, depth - 1, _seen)
                _seen.discard(n.id)
            else:
                out.add(n.id)
        elif isinstance(n, ast.Constant) and isinstance(n.value, (int, str)) and not isinstance(n.value, bool):
            out.add("#" + str(n.value))
    return out


def py_guard_text(g: tuple) -> str:
    atom, pol, origin = g
    if isinstance(atom, ast.AST):
        t = unparse(atom)
    elif isinstance(atom, tuple):
        tag = atom[0]
        if tag == "except":
            t = "except " + (unparse(atom[1]) if atom[1] is not None else "")
        elif tag == "for-has-next":
            t = "for-next " + unparse(atom[1])
        elif tag == "case":
            t = f"match {unparse(atom[1])} case {unparse(atom[2])}"
        else:
            t = str(tag)
    else:
        t = str(atom)
    return ("" if pol else "NOT ") + t


def py_bit_test(atom: Any, pol: bool, const_eval: Callable[[ast.AST], Any]) -> tuple[ast.AST, int] | None:
    """`(X & M) != 0` true / `(X & M) == 0` false / bare `X & M` truthy."""
    if not isinstance(atom, ast.AST):
        return None
    e = atom
    band = None
    if isinstance(e, ast.Compare) and len(e.ops) == 1:
        op = e.ops[0]
        if isinstance(op, (ast.NotEq, ast.Gt)):
            nz = pol
        elif isinstance(op, ast.Eq):
            nz = not pol
        else:
            return None
        if not nz:
            return None
        try:
            if const_eval(e.comparators[0]) != 0:
                return None
        except Exception:
            return None
        band = e.left
    elif isinstance(e, ast.BinOp) and isinstance(e.op, ast.BitAnd):
        if not pol:
            return None
        band = e
    if not (isinstance(band, ast.BinOp) and isinstance(band.op, ast.BitAnd)):
        return None
    for x, m in ((band.left, band.right), (band.right, band.left)):
        try:
            mv = const_eval(m)
        except Exception:
            continue
        if hasattr(mv, "value") and isinstance(getattr(mv, "value"), int):
            mv = mv.value
        if isinstance(mv, int) and not isinstance(mv, bool):
            return x, mv
    return None


def py_sites(fn: ast.AST, pred: Callable[[ast.AST], bool]) -> list[ast.AST]:
    return [n for n in ast.walk(fn) if pred(n)]


def py_is_call(n: ast.AST, name_suffix: str) -> bool:
    if not isinstance(n, ast.Call):
        return False
    ch = attr_chain(n.func)
    if ch is None and isinstance(n.func, ast.Attribute):
        ch = "?." + n.func.attr
    return ch is not None and (ch == name_suffix or ch.endswith("." + name_suffix))


def key_of(file: str, qual: str, construct: str) -> str:
    return f"{file}::{qual}::{' '.join(construct.split())}"


def def_root(d: Any) -> Any:
    """Strip the ("tuple-elem"|"variant-elem"|"field"|"unpack", ..., init) wrappers down to the underlying expression."""
    while isinstance(d, tuple) and d and d[0] in ("tuple-elem", "variant-elem", "field", "unpack", "iter-elem"):
        d = d[-1]
    return d


def rs_names_reaching(e: Any, defs: dict[str, list[Any]], depth: int = 6, _seen: set | None = None) -> set[str]:
    """All local/path names met while expanding an expression through local definitions (intermediate names included)."""
    out: set[str] = set()
    _seen = _seen if _seen is not None else set()
    if isinstance(e, tuple):
        for x in e:
            if isinstance(x, (dict, tuple)):
                out |= rs_names_reaching(x, defs, depth, _seen)
        return out
    if not isinstance(e, (dict, list)):
        return out
    for n in walk(e):
        if n.get("k") == "path":
            p = n["p"]
            out.add(p)
            if p in defs and depth > 0 and p not in _seen:
                _seen.add(p)
                for d in defs[p]:
                    out |= rs_names_reaching(d, defs, depth - 1, _seen)
        elif n.get("k") == "mcall":
            out.add("." + n["m"] + "()")
    return out


# ---------------------------------------------------------------------------
# Canonical text of a Rust expression: locals with exactly one definition are replaced by (the canonical text of) that definition
# and closure parameters are numbered, so that two programs that differ only in how they name intermediate values compare equal.
_RS_ID = r"(?<![\w.:])%s(?![\w(!:])"


def rs_canon(e: Any, defs: dict[str, list[Any]], depth: int = 5, keep: Iterable[str] = ()) -> str:
    import re as _re
    if not isinstance(e, dict):
        return str(e)
    t = expr_text(e)
    # closure parameters -> positional names
    k_ = 0
    for c in walk(e):
        if c.get("k") == "closure":
            for p in c.get("params", []):
                for nd in walk(p):
                    if nd.get("k") == "p_ident":
                        t = _re.sub(r"(?<![\w.])%s(?![\w])" % _re.escape(nd["name"]), f"_c{k_}", t)
                        k_ += 1
    t = t.replace(" ", "")
    if depth <= 0:
        return t
    for nm, vs in defs.items():
        if nm in keep or nm == "self":
            continue
        ds = [v for v in vs if isinstance(v, dict)]
        if len(vs) != 1 or len(ds) != 1:
            continue
        pat = _RS_ID % _re.escape(nm)
        if _re.search(pat, t):
            sub = rs_canon(ds[0], {k: v for k, v in defs.items() if k != nm}, depth - 1, keep)
            t = _re.sub(pat, lambda _m: "(" + sub + ")", t)
    return t
