"""Entry point: python -m sa.run <ID> [--tier quick|thorough]"""
from __future__ import annotations

import argparse
import importlib
import os
import sys

from .core import run_check


def main() -> int:
    ap = argparse.ArgumentParser()
    ap.add_argument("prop")
    ap.add_argument("--tier", default=os.environ.get("VERIF_TIER") or "quick", choices=["quick", "thorough"])
    a = ap.parse_args()
    prop = a.prop.upper()
    try:
        mod = importlib.import_module(f"sa.checks.{prop.lower()}")
    except ModuleNotFoundError as e:
        print(f"ANALYSIS-ERROR property={prop} no check module: {e}")
        return 2
    return run_check(prop, a.tier, mod.run, mod.LEVEL, mod.EXPLANATION, mod.TRUSTED)


if __name__ == "__main__":
    sys.stdout.flush()
    rc = main()
    sys.stdout.flush()
    os._exit(rc)
