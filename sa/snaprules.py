"""Shared rule: a snapshot restore puts the saved timer targets back exactly as saved (C13: no boundary fire is lost or duplicated
across save/load; C16: restore is the inverse of save)."""
from __future__ import annotations

import ast

from . import cfg as cfgmod
from .core import AnalysisError
from .pyfacts import PyProgram, attr_chain, unparse
from .rules import key_of, py_defs

EMU = "pce500/emulator.py"


def timer_restore_findings(py: PyProgram) -> tuple[list[tuple[str, str, int]], int]:
    """[(key, description, line)], sites inspected"""
    fn = py.func(EMU, "PCE500Emulator.load_snapshot")
    g = cfgmod.build_py(fn, "load_snapshot")
    defs = py_defs(fn)
    out = []
    n = 0
    for fld in ("next_mti", "next_sti"):
        stores = [a for a in ast.walk(fn) if isinstance(a, ast.Assign) and any(attr_chain(t) == f"self._scheduler.{fld}" for t in a.targets)]
        if not stores:
            raise AnalysisError(f"load_snapshot: no store to self._scheduler.{fld}")
        for a in stores:
            n += 1
            def expanded(x: ast.AST, depth: int = 0) -> str:
                # the guard with its locals replaced by what they were computed from (names carry no meaning)
                t = unparse(x)
                if depth < 3:
                    for nm_ in {y.id for y in ast.walk(x) if isinstance(y, ast.Name)}:
                        for dv in defs.get(nm_, []):
                            if isinstance(dv, ast.AST):
                                t += " <- " + expanded(dv, depth + 1)
                return t
            gs = [(unparse(x), pol, expanded(x)) for x, pol, _o in g.guards_of(g.node_of(a)) if isinstance(x, ast.AST)]
            bad = [t for t, _p, ex in gs if f"'{fld}'" in ex or "cycle_count" in ex]
            if bad:
                out.append((key_of(EMU, "PCE500Emulator.load_snapshot", f"{fld} restored conditionally"),
                            f"load_snapshot restores the saved {fld} only when `{bad[0]}`: a target that was already due when the snapshot was taken (the tick happens at the start of the next instruction) is dropped, so that boundary never fires after a restore", a.lineno))
            v = a.value
            names = [x.id for x in ast.walk(v) if isinstance(x, ast.Name)]
            for nm in names:
                ds = [d for d in defs.get(nm, []) if isinstance(d, ast.AST)]
                def from_snapshot(dv: ast.AST) -> bool:
                    return any(isinstance(c, ast.Constant) and c.value == fld for c in ast.walk(dv))
                adjusted = [d for d in ds if not from_snapshot(d)]
                augs = [s for s in ast.walk(fn) if isinstance(s, ast.AugAssign) and isinstance(s.target, ast.Name) and s.target.id == nm]
                if len(ds) > 1 and adjusted or augs:
                    what = unparse(augs[0]) if augs else unparse(adjusted[0])
                    out.append((key_of(EMU, "PCE500Emulator.load_snapshot", f"{fld} adjusted before restore"),
                                f"load_snapshot changes the saved {fld} before restoring it (`{what[:80]}`): the restored machine fires that timer at a different cycle than the machine that was saved", getattr(augs[0] if augs else adjusted[0], "lineno", a.lineno)))
    return out, n
