"""Mutants for selftest/run.py.  `revert` = a /repo fix commit applied in reverse; `edits` = textual replacements."""
P = "sc62015/pysc62015/"
ALL = [f"C{i:02d}" for i in range(1, 19)]
RUST = ["C04", "C05", "C06", "C07", "C08", "C11", "C12", "C13", "C14", "C15", "C16", "C17", "C18"]
MUTANTS = [
    # --- every repaired defect must be reported again when it returns -------------------------------------------
    {"id": "revert/1b35944-rust-table-widths", "kind": "break", "revert": "1b35944", "props": ["C17"]},
    {"id": "revert/ab7723e-temp-keys", "kind": "break", "revert": "ab7723e", "props": ["C16"]},
    {"id": "revert/586cf5b-fusion-lookahead", "kind": "break", "revert": "586cf5b", "props": ["C01"]},
    {"id": "revert/4990e9a-emulator-fetch", "kind": "break", "revert": "4990e9a", "props": ["C01"]},
    {"id": "revert/48eb4bc-jp-indirect-analyze", "kind": "break", "revert": "48eb4bc", "props": ["C05"]},
    {"id": "revert/75071ee-jp-imem-mode", "kind": "break", "revert": "75071ee", "props": ["C03"]},
    {"id": "revert/7fcb0fd-ex-modes", "kind": "break", "revert": "7fcb0fd", "props": ["C03"]},
    {"id": "revert/503c7b5-mvl-mode", "kind": "break", "revert": "503c7b5", "props": ["C03"]},
    {"id": "revert/38f5ce3-default-pair", "kind": "break", "revert": "38f5ce3", "props": ["C09"]},
    {"id": "revert/8bc9419-nested-imem-prefix", "kind": "break", "revert": "8bc9419", "props": ["C09"]},
    {"id": "revert/26b0c2d-ex-default-pair", "kind": "break", "revert": "26b0c2d", "props": ["C09"]},
    {"id": "revert/e31b81b-cache-key", "kind": "break", "revert": "e31b81b", "props": ["C10"]},
    {"id": "revert/35c0eeb-org-symbol", "kind": "break", "revert": "35c0eeb", "props": ["C10"]},
    {"id": "revert/bd5a0ce-mvl-signed-count", "kind": "break", "revert": "bd5a0ce", "props": ["C04", "C03"]},
    {"id": "revert/c568b2c-lcd-start-line", "kind": "break", "revert": "c568b2c", "props": ["C15"]},

    # --- behaviour-preserving edits: every check must stay silent ---------------------------------------------------
    {"id": "neutral/ruff-format-width-140", "kind": "neutral", "props": ALL,
     "cmd": "/venv/bin/ruff format --line-length 140 -q sc62015 pce500 scripts"},
    {"id": "neutral/ruff-format-width-60", "kind": "neutral", "props": ALL,
     "cmd": "/venv/bin/ruff format --line-length 60 -q sc62015 pce500 scripts"},
    {"id": "neutral/rustfmt-width-70", "kind": "neutral", "props": RUST,
     "cmd": "find sc62015/core/src sc62015/rustcore -name '*.rs' 2>/dev/null | xargs rustfmt --edition 2021 --config max_width=70 || true"},
    {"id": "neutral/line-shift", "kind": "neutral", "props": ALL,
     "cmd": "for f in $(find sc62015 pce500 -name '*.py' -not -path '*/third_party/*'); do printf '# shifted\n# shifted\n# shifted\n' | cat - $f > $f.tmp && mv $f.tmp $f; done; for f in $(find sc62015 -name '*.rs'); do printf '// shifted\n// shifted\n' | cat - $f > $f.tmp && mv $f.tmp $f; done"},

    {"id": "neutral/python-temporaries", "kind": "neutral", "props": ALL,
     "cmd": "/venv/bin/python /verif/selftest/neutral_temps.py . both"},
    {"id": "neutral/python-call-argument-temporaries", "kind": "neutral", "props": ALL,
     "cmd": "/venv/bin/python /verif/selftest/neutral_args.py ."},
    {"id": "neutral/python-local-renames", "kind": "neutral", "props": ALL,
     "cmd": "/venv/bin/python /verif/selftest/neutral_rename.py ."},
    {"id": "neutral/rust-local-renames", "kind": "neutral", "props": RUST,
     "cmd": "/venv/bin/python /verif/selftest/neutral_rust_rename.py ."},
    {"id": "neutral/rust-temporaries", "kind": "neutral", "props": RUST,
     "cmd": "/venv/bin/python /verif/selftest/neutral_rust_temps.py ."},

    # --- targeted behaviour-preserving refactors around the rules added after seeding ---------------------------------
    {"id": "neutral/org-arg-temporary", "kind": "neutral", "props": ["C10"], "edits": [
        {"file": P + "sc_asm.py", "old": "            new_addr = self._evaluate_operand(str(stmt[\"args\"]))\n", "new": "            org_arg = str(stmt[\"args\"])\n            new_addr = self._evaluate_operand(org_arg)\n"}]},
    {"id": "neutral/irq-saved-imr-rename", "kind": "neutral", "props": ["C12", "C05"], "edits": [
        {"file": "pce500/emulator.py", "old": "imr_val = self.memory.read_byte(imr_addr)", "new": "saved_imr = self.memory.read_byte(imr_addr)"},
        {"file": "pce500/emulator.py", "old": "self.memory.write_bytes(1, s_new, imr_val)", "new": "self.memory.write_bytes(1, s_new, saved_imr)"},
        {"file": "pce500/emulator.py", "old": "push_imr value=0x{imr_val & 0xFF:02X}", "new": "push_imr value=0x{saved_imr & 0xFF:02X}"},
        {"file": "pce500/emulator.py", "old": "imr_addr, imr_val & (~int(IMRFlag.IRM) & 0xFF)", "new": "imr_addr, saved_imr & (~int(IMRFlag.IRM) & 0xFF)"}]},
    {"id": "neutral/flat-image-temporary", "kind": "neutral", "props": ["C16"], "edits": [
        {"file": "pce500/memory.py", "old": "                    blob[start : start + max_len] = overlay.data[:max_len]", "new": "                    copy_end = start + max_len\n                    blob[start:copy_end] = overlay.data[:max_len]"}]},
    {"id": "neutral/registers-address-table", "kind": "neutral", "props": ["C08"], "edits": [
        {"file": P + "emulator.py", "old": "    def get(self, reg: RegisterName) -> int:\n        if reg in self.BASE:\n            val = self._values[reg]\n            if reg in (\n                RegisterName.PC,\n                RegisterName.X,\n                RegisterName.Y,\n                RegisterName.U,\n                RegisterName.S,\n            ):",
         "new": "    _ADDR20 = (RegisterName.PC, RegisterName.X, RegisterName.Y, RegisterName.U, RegisterName.S)\n\n    def get(self, reg: RegisterName) -> int:\n        if reg in self.BASE:\n            val = self._values[reg]\n            if reg in self._ADDR20:"}]},
    {"id": "neutral/active-columns-mask", "kind": "neutral", "props": ["C14"], "edits": [
        {"file": "pce500/keyboard_matrix.py", "old": "        active: List[int] = []\n        for col in range(8):\n            bit = (self.kol >> col) & 1\n            active_flag = bit == 1 if self.columns_active_high else bit == 0\n            if active_flag:\n                active.append(col)\n        for col in range(8):\n            bit = (self.koh >> col) & 1\n            active_flag = bit == 1 if self.columns_active_high else bit == 0\n            if active_flag:\n                active.append(col + 8)\n        return active",
         "new": "        mask = (self.kol & 0xFF) | ((self.koh & 0xFF) << 8)\n        if not self.columns_active_high:\n            mask ^= 0xFFFF\n        return [col for col in range(16) if (mask >> col) & 1]"}]},
    {"id": "neutral/async-cpu-counting-while", "kind": "neutral", "props": ["C18"], "edits": [
        {"file": "sc62015/core/src/async_cpu.rs", "old": "        for _ in 0..instructions {", "new": "        let mut step_index = 0;\n        while step_index < instructions {\n            step_index += 1;"}]},
    {"id": "neutral/restore-rename", "kind": "neutral", "props": ["C13", "C16"], "edits": [
        {"file": "pce500/emulator.py", "old": "        next_mti = int(\n            timer_info.get(\"next_mti\"", "new": "        restored_mti = int(\n            timer_info.get(\"next_mti\""},
        {"file": "pce500/emulator.py", "old": "        self._scheduler.next_mti = next_mti", "new": "        self._scheduler.next_mti = restored_mti"}]},
    {"id": "neutral/reg3-20bit-from-names", "kind": "neutral", "props": ["C06", "C04"], "edits": [
        {"file": P + "instr/instructions.py", "old": "REG3_20BIT_REGS = (\n    RegisterName(\"X\"),\n    RegisterName(\"Y\"),\n    RegisterName(\"U\"),\n    RegisterName(\"S\"),\n)", "new": "REG3_20BIT_REGS = tuple(RegisterName(n) for n in (\"X\", \"Y\", \"U\", \"S\"))"}]},
    {"id": "neutral/popf-reorder", "kind": "neutral", "props": ["C04", "C07"], "edits": [
        {"file": P + "instr/opcodes.py", "old": "        il.append(il.set_flag(CFlag, il.and_expr(1, tmp.lift(il), il.const(1, 1))))\n        il.append(il.set_flag(ZFlag, il.and_expr(1, tmp.lift(il), il.const(1, 2))))", "new": "        il.append(il.set_flag(ZFlag, il.and_expr(1, tmp.lift(il), il.const(1, 0x02))))\n        il.append(il.set_flag(CFlag, il.and_expr(1, tmp.lift(il), il.const(1, 0x01))))"}]},

    {"id": "neutral/lcd-renderer-segment-loop", "kind": "neutral", "props": ["C15"], "edits": [
        {"file": "pce500/display/hd61202.py", "old": "    image.paste(images[1].crop((0, 0, right_width, height)), (0, 0))\n", "new": "    upper_right = images[1].crop((0, 0, right_width, height))\n    image.paste(upper_right, (0, 0))\n"},
        {"file": "pce500/display/hd61202.py", "old": "            self.vram[self.state.page][self.state.y_address] = data\n", "new": "            page, col = self.state.page, self.state.y_address\n            self.vram[page][col] = data\n"}]},

    # --- round 4: behaviour-preserving variants around the rules added for the fourth batch of seeded changes --------------
    {"id": "neutral/loop-backedge-not-equal", "kind": "neutral", "props": ["C04", "C03", "C06", "C07"], "edits": [
        {"file": P + "instr/opcodes.py", "old": "    cond = il.compare_equal(width, loop_reg.lift(il), il.const(width, 0))\n    il.append(il.if_expr(cond, if_true, if_false))\n",
         "new": "    more = il.compare_not_equal(width, loop_reg.lift(il), il.const(width, 0))\n    il.append(il.if_expr(more, if_false, if_true))\n"}]},
    {"id": "neutral/section-attribute-reset-in-both-passes", "kind": "neutral", "props": ["C10"],
     "cmd": "patch -p1 -s < /verif/seeded/C10/12/patch.diff && /venv/bin/python -c \"p='sc62015/pysc62015/sc_asm.py'; s=open(p).read(); a='        self.instructions_cache.clear()\\n\\n        for i, line in enumerate(program_ast'; assert a in s; s=s.replace(a, '        self.instructions_cache.clear()\\n        self.current_section = self.DEFAULT_SECTION\\n\\n        for i, line in enumerate(program_ast', 1); open(p,'w').write(s)\""},
    {"id": "neutral/addr20-class-constant", "kind": "neutral", "props": ["C17", "C08"], "edits": [
        {"file": P + "emulator.py", "old": "    def get(self, reg: RegisterName) -> int:\n        if reg in self.BASE:\n            val = self._values[reg]\n            if reg in (\n                RegisterName.PC,\n                RegisterName.X,\n                RegisterName.Y,\n                RegisterName.U,\n                RegisterName.S,\n            ):",
         "new": "    _ADDR20 = {RegisterName.PC, RegisterName.X, RegisterName.Y, RegisterName.U, RegisterName.S}\n\n    def get(self, reg: RegisterName) -> int:\n        if reg in self.BASE:\n            val = self._values[reg]\n            if reg in self._ADDR20:"},
        {"file": P + "emulator.py", "old": "            mask = (1 << (REGISTER_SIZE[reg] * 8)) - 1\n            if reg in (\n                RegisterName.PC,\n                RegisterName.X,\n                RegisterName.Y,\n                RegisterName.U,\n                RegisterName.S,\n            ):",
         "new": "            mask = (1 << (REGISTER_SIZE[reg] * 8)) - 1\n            if reg in self._ADDR20:"}]},
    {"id": "neutral/fusion-fuse-result-local", "kind": "neutral", "props": ["C02", "C01", "C06"], "edits": [
        {"file": P + "instr/opcodes.py", "old": "        if instr12 := instr1.fuse(instr2):\n            instr1 = instr12\n            continue\n",
         "new": "        fused = instr1.fuse(instr2)\n        if fused:\n            instr1 = fused\n            continue\n"}]},
    {"id": "neutral/set-by-name-local", "kind": "neutral", "props": ["C08"], "edits": [
        {"file": P + "emulator.py", "old": "    def set_by_name(self, name: str, value: int) -> None:\n        self.set(RegisterName[name], value)\n",
         "new": "    def set_by_name(self, name: str, value: int) -> None:\n        reg = RegisterName[name]\n        self.set(reg, value)\n"}]},
    {"id": "neutral/fetch-address-commuted", "kind": "neutral", "props": ["C01", "C06", "C07"], "edits": [
        {"file": P + "emulator.py", "old": "            addr = address + offset\n", "new": "            addr = offset + address\n"}]},
    {"id": "neutral/fifo-snapshot-by-slices", "kind": "neutral", "props": ["C14"], "edits": [
        {"file": "pce500/keyboard_matrix.py", "old": "        snapshot: List[int] = []\n        idx = self._head\n        while idx != self._tail:\n            snapshot.append(self._fifo[idx])\n            idx = (idx + 1) % FIFO_SIZE\n        return snapshot\n",
         "new": "        if self._head <= self._tail:\n            return self._fifo[self._head : self._tail]\n        return self._fifo[self._head :] + self._fifo[: self._tail]\n"}]},
    {"id": "neutral/add-rom-image-local", "kind": "neutral", "props": ["C11", "C16"], "edits": [
        {"file": "pce500/memory.py", "old": "        \"\"\"Add ROM at arbitrary address as overlay.\"\"\"\n        self.add_overlay(\n            MemoryOverlay(\n                start=start_address,\n                end=start_address + len(rom_data) - 1,\n                name=name,\n                data=bytearray(rom_data),",
         "new": "        \"\"\"Add ROM at arbitrary address as overlay.\"\"\"\n        image = bytearray(rom_data)\n        last = start_address + len(image) - 1\n        self.add_overlay(\n            MemoryOverlay(\n                start=start_address,\n                end=last,\n                name=name,\n                data=image,"}]},
    {"id": "neutral/restore-lcd-presence-test", "kind": "neutral", "props": ["C16"], "edits": [
        {"file": "pce500/emulator.py", "old": "        if not metadata or payload is None:\n            return\n        self.lcd.load_snapshot(metadata, payload)", "new": "        have_meta = bool(metadata)\n        if not have_meta:\n            return\n        if payload is None:\n            return\n        self.lcd.load_snapshot(metadata, payload)"}]},
    {"id": "neutral/block-on-clock-local-rename", "kind": "neutral", "props": ["C18"], "edits": [
        {"file": "sc62015/core/src/async_driver.rs", "old": "    let mut clock = current_cycle();\n    let waker = noop_waker();", "new": "    let entry_cycle = current_cycle();\n    let mut clock = entry_cycle;\n    let waker = noop_waker();"}]},

    # --- Rust-side changes (the crate is not compiled by the tests, so only static analysis sees them) ----------------
    {"id": "break/rust-and-writes-carry", "kind": "break", "props": ["C06"], "expect": "C06.7/flag-signature", "edits": [
        {"file": "sc62015/core/src/llama/eval.rs", "old": "                    InstrKind::And => ((lhs_val & rhs_val) & mask, None),", "new": "                    InstrKind::And => ((lhs_val & rhs_val) & mask, Some(false)),"}]},
    {"id": "break/rust-mv-clobbers-carry", "kind": "break", "props": ["C06"], "expect": "C06.7/flag-signature", "edits": [
        {"file": "sc62015/core/src/llama/eval.rs", "old": "                state.set_reg(RegName::FC, saved_fc);\n", "new": "                state.set_reg(RegName::FC, 0);\n", "count": 1}]},
    {"id": "break/rust-swap-writes-carry", "kind": "break", "props": ["C06"], "expect": "C06.7/flag-signature", "edits": [
        {"file": "sc62015/core/src/llama/eval.rs", "old": "            InstrKind::Swap => {", "new": "            InstrKind::Swap => {\n                state.set_reg(RegName::FC, 0);"}]},
]
