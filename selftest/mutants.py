"""Mutants for selftest/run.py.  `revert` = a /repo fix commit applied in reverse; `edits` = textual replacements."""
P = "sc62015/pysc62015/"
ALL = [f"C{i:02d}" for i in range(1, 19)]
RUST = ["C04", "C05", "C06", "C07", "C08", "C11", "C12", "C13", "C14", "C15", "C16", "C17", "C18"]
MUTANTS = [
    # --- every repaired defect must be reported again when it returns -------------------------------------------
    {"id": "revert/1b35944-rust-table-widths", "kind": "break", "revert": "1b35944", "props": ["C17"]},
    {"id": "revert/ab7723e-temp-keys", "kind": "break", "revert": "ab7723e", "props": ["C16"]},
    {"id": "revert/586cf5b-fusion-lookahead", "kind": "break", "revert": "586cf5b", "props": ["C01"]},
    {"id": "revert/4990e9a-emulator-fetch", "kind": "break", "revert": "4990e9a", "props": ["C01"]},
    {"id": "revert/48eb4bc-jp-indirect-analyze", "kind": "break", "revert": "48eb4bc", "props": ["C05"]},
    {"id": "revert/75071ee-jp-imem-mode", "kind": "break", "revert": "75071ee", "props": ["C03"]},
    {"id": "revert/7fcb0fd-ex-modes", "kind": "break", "revert": "7fcb0fd", "props": ["C03"]},
    {"id": "revert/503c7b5-mvl-mode", "kind": "break", "revert": "503c7b5", "props": ["C03"]},
    {"id": "revert/38f5ce3-default-pair", "kind": "break", "revert": "38f5ce3", "props": ["C09"]},
    {"id": "revert/8bc9419-nested-imem-prefix", "kind": "break", "revert": "8bc9419", "props": ["C09"]},
    {"id": "revert/26b0c2d-ex-default-pair", "kind": "break", "revert": "26b0c2d", "props": ["C09"]},
    {"id": "revert/e31b81b-cache-key", "kind": "break", "revert": "e31b81b", "props": ["C10"]},
    {"id": "revert/35c0eeb-org-symbol", "kind": "break", "revert": "35c0eeb", "props": ["C10"]},

    # --- behaviour-preserving edits: every check must stay silent ---------------------------------------------------
    {"id": "neutral/ruff-format-width-140", "kind": "neutral", "props": ALL,
     "cmd": "/venv/bin/ruff format --line-length 140 -q sc62015 pce500 scripts"},
    {"id": "neutral/ruff-format-width-60", "kind": "neutral", "props": ALL,
     "cmd": "/venv/bin/ruff format --line-length 60 -q sc62015 pce500 scripts"},
    {"id": "neutral/rustfmt-width-70", "kind": "neutral", "props": RUST,
     "cmd": "find sc62015/core/src sc62015/rustcore -name '*.rs' 2>/dev/null | xargs rustfmt --edition 2021 --config max_width=70 || true"},
    {"id": "neutral/line-shift", "kind": "neutral", "props": ALL,
     "cmd": "for f in $(find sc62015 pce500 -name '*.py' -not -path '*/third_party/*'); do printf '# shifted\n# shifted\n# shifted\n' | cat - $f > $f.tmp && mv $f.tmp $f; done; for f in $(find sc62015 -name '*.rs'); do printf '// shifted\n// shifted\n' | cat - $f > $f.tmp && mv $f.tmp $f; done"},
]
