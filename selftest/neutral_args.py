#!/usr/bin/env python3
"""Behaviour-preserving rewrite (selftest only): in every function of the production Python sources, the *first* non-trivial argument of
a statement-level call `recv.method(a, b, ..)` / `f(a, ..)` (expression statement, or the whole right-hand side of an assignment or
return) is computed into a temporary on the line before - when the callee expression is a plain name/attribute chain, so that nothing
is evaluated before that argument.  usage: neutral_args.py <repo copy>"""
import ast, sys
from pathlib import Path


def simple(e):
    return not any(isinstance(x, (ast.Call, ast.Subscript, ast.Await, ast.Yield, ast.YieldFrom, ast.NamedExpr, ast.Lambda, ast.ListComp, ast.SetComp, ast.DictComp, ast.GeneratorExp, ast.IfExp, ast.BoolOp)) for x in ast.walk(e))


class T(ast.NodeTransformer):
    def __init__(self):
        self.k = 0
        self.depth = 0
        self.changed = 0

    def visit_FunctionDef(self, node):
        self.depth += 1
        self.generic_visit(node)
        self.depth -= 1
        return node
    visit_AsyncFunctionDef = visit_FunctionDef

    def visit_Lambda(self, node):
        return node

    def visit_ClassDef(self, node):
        d, self.depth = self.depth, 0
        self.generic_visit(node)
        self.depth = d
        return node

    def hoist(self, node, call):
        if not (self.depth and isinstance(call, ast.Call) and simple(call.func)):
            return node
        for i, a in enumerate(call.args):
            if isinstance(a, ast.Starred):
                return node
            if isinstance(a, (ast.Name, ast.Constant)):
                continue
            if not all(simple(x) for x in call.args[:i]):
                return node
            self.k += 1
            self.changed += 1
            n = f"_sa_a{self.k}"
            call.args[i] = ast.copy_location(ast.Name(n, ast.Load()), a)
            return [ast.copy_location(ast.Assign([ast.Name(n, ast.Store())], a, lineno=node.lineno), node), node]
        return node

    def visit_Expr(self, node):
        return self.hoist(node, node.value)

    def visit_Assign(self, node):
        if len(node.targets) == 1 and isinstance(node.targets[0], ast.Name):
            return self.hoist(node, node.value)
        return node

    def visit_Return(self, node):
        return self.hoist(node, node.value) if node.value is not None else node


def main():
    root = Path(sys.argv[1])
    files = [p for d in ("sc62015", "pce500") for p in (root / d).rglob("*.py") if "test" not in p.name and "/tests/" not in str(p)]
    total = 0
    for p in files:
        try:
            tree = ast.parse(p.read_text())
        except SyntaxError:
            continue
        t = T()
        tree = t.visit(tree)
        ast.fix_missing_locations(tree)
        if t.changed:
            p.write_text(ast.unparse(tree) + "\n")
            total += t.changed
    print(f"hoisted {total} call arguments in {len(files)} files")


if __name__ == "__main__":
    main()
