#!/usr/bin/env python3
"""Behaviour-preserving rewrite (selftest only): every purely local variable of every function in the production Python sources is
renamed (parameters, globals/nonlocals, names used by nested functions, and names in functions that call locals()/vars()/eval/exec
are left alone).  usage: neutral_rename.py <repo copy>"""
import ast, sys, builtins
from pathlib import Path


def locals_of(fn):
    params = {a.arg for a in fn.args.args + fn.args.kwonlyargs + fn.args.posonlyargs}
    if fn.args.vararg: params.add(fn.args.vararg.arg)
    if fn.args.kwarg: params.add(fn.args.kwarg.arg)
    stores, banned = set(), set(params)
    inner_names = set()
    for n in ast.walk(fn):
        if n is not fn and isinstance(n, (ast.FunctionDef, ast.AsyncFunctionDef, ast.Lambda, ast.ClassDef, ast.ListComp, ast.SetComp, ast.DictComp, ast.GeneratorExp)):
            for x in ast.walk(n):
                if isinstance(x, ast.Name):
                    inner_names.add(x.id)
            if isinstance(n, (ast.FunctionDef, ast.AsyncFunctionDef, ast.ClassDef)):
                banned.add(n.name)
        if isinstance(n, (ast.Global, ast.Nonlocal)):
            banned |= set(n.names)
        if isinstance(n, ast.Call) and isinstance(n.func, ast.Name) and n.func.id in ("locals", "vars", "eval", "exec"):
            return set()
        if isinstance(n, ast.Name) and isinstance(n.ctx, (ast.Store, ast.Del)):
            stores.add(n.id)
        if isinstance(n, (ast.Import, ast.ImportFrom)):
            for a in n.names:
                banned.add((a.asname or a.name).split(".")[0])
        if isinstance(n, ast.ExceptHandler) and n.name:
            banned.add(n.name)
        if isinstance(n, (ast.MatchAs, ast.MatchStar)) and getattr(n, "name", None):
            banned.add(n.name)
    return {s for s in stores if s not in banned and s not in inner_names and not hasattr(builtins, s)}


def rename(fn, k0):
    loc = sorted(locals_of(fn))
    if not loc:
        return 0
    mp = {nm: f"lv{k0 + i}_{nm[:1]}" for i, nm in enumerate(loc)}
    inner = [n for n in ast.walk(fn) if n is not fn and isinstance(n, (ast.FunctionDef, ast.AsyncFunctionDef, ast.Lambda, ast.ClassDef))]
    skip = {id(x) for n in inner for x in ast.walk(n)}
    for n in ast.walk(fn):
        if id(n) in skip:
            continue
        if isinstance(n, ast.Name) and n.id in mp:
            n.id = mp[n.id]
    return len(mp)


def main():
    root = Path(sys.argv[1])
    files = [p for d in ("sc62015", "pce500") for p in (root / d).rglob("*.py") if "test" not in p.name and "/tests/" not in str(p)]
    total = 0
    for p in files:
        try:
            tree = ast.parse(p.read_text())
        except SyntaxError:
            continue
        k = 0
        for fn in [n for n in ast.walk(tree) if isinstance(n, (ast.FunctionDef, ast.AsyncFunctionDef))]:
            k += rename(fn, k)
        if k:
            p.write_text(ast.unparse(tree) + "\n")
            total += k
    print(f"renamed {total} locals in {len(files)} files")


if __name__ == "__main__":
    main()
