#!/usr/bin/env python3
"""Behaviour-preserving rewrite of the Rust core (selftest only): `let`-bound and `for`-bound simple locals of every function are
renamed.  Token-level (no Rust parser): identifiers after `.` or around `::` are left alone, struct shorthand `{ a, b }` becomes
`{ a: a_lv, .. }`, names captured by inline format strings or used by macros with `$`/stringify are skipped.  The result is accepted
as a neutral only after `cargo build` of a scratch copy succeeds (tools/rust_scratch_build.sh).  usage: neutral_rust_rename.py <repo copy>"""
import re, sys
from pathlib import Path

TOK = re.compile(r"""
  (?P<ws>\s+)
 |(?P<lc>//[^\n]*)
 |(?P<bc>/\*.*?\*/)
 |(?P<rstr>b?r(?P<h>\#*)".*?"(?P=h))
 |(?P<str>b?"(?:\\.|[^"\\])*")
 |(?P<life>'[A-Za-z_][A-Za-z0-9_]*(?!'))
 |(?P<chr>b?'(?:\\.[^']*|[^'\\])')
 |(?P<id>[A-Za-z_][A-Za-z0-9_]*)
 |(?P<num>[0-9][0-9A-Za-z_]*(?:\.[0-9][0-9A-Za-z_]*)?)
 |(?P<p2>::|->|=>|==|!=|<=|>=|&&|\|\||\.\.=|\.\.|<<=|>>=|<<|>>|\+=|-=|\*=|/=|%=|\^=|&=|\|=)
 |(?P<p1>.)
""", re.S | re.X)
KEYWORDS = set("as break const continue crate else enum extern false fn for if impl in let loop match mod move mut pub ref return self Self static struct super trait true type unsafe use where while async await dyn".split())


def lex(text):
    out = []
    for m in TOK.finditer(text):
        kind = m.lastgroup
        if kind == "h":
            kind = "rstr"
        out.append([kind, m.group(0)])
    return out


def sig(toks, i, step):
    j = i + step
    while 0 <= j < len(toks) and toks[j][0] in ("ws", "lc", "bc"):
        j += step
    return j if 0 <= j < len(toks) else None


def process(text):
    toks = lex(text)
    n = len(toks)
    # function bodies: `fn` ident ... `{` ... matching `}`
    i = 0
    renamed = 0
    while i < n:
        if toks[i] == ["id", "fn"]:
            j = i
            depth_par = 0
            while j < n and not (toks[j][1] == "{" and depth_par == 0) and not (toks[j][1] == ";" and depth_par == 0):
                if toks[j][1] in "([":
                    depth_par += 1
                elif toks[j][1] in ")]":
                    depth_par -= 1
                j += 1
            if j >= n or toks[j][1] == ";":
                i = j + 1
                continue
            start = j
            d = 0
            k = j
            while k < n:
                if toks[k][0] == "p1" and toks[k][1] == "{":
                    d += 1
                elif toks[k][0] == "p1" and toks[k][1] == "}":
                    d -= 1
                    if d == 0:
                        break
                k += 1
            end = k
            renamed += rename_body(toks, i, end)
            i = start + 1      # nested fns are handled when reached
            continue
        i += 1
    return "".join(t[1] for t in toks), renamed


def rename_body(toks, start, end):
    names = set()
    banned = set()
    for i in range(start, end):
        t = toks[i]
        if t[0] == "id" and t[1] in ("let", "for"):
            j = sig(toks, i, 1)
            if j is not None and toks[j] == ["id", "mut"]:
                j = sig(toks, j, 1)
            if j is not None and toks[j][0] == "id" and toks[j][1] not in KEYWORDS and not toks[j][1][0].isupper():
                nx = sig(toks, j, 1)
                if nx is not None and toks[nx][1] in ("=", ":", ";", "in"):
                    names.add(toks[j][1])
        if t[0] in ("str", "rstr"):
            for m in re.finditer(r"\{([A-Za-z_][A-Za-z0-9_]*)", t[1]):
                banned.add(m.group(1))
        if t[0] == "id" and t[1] == "fn" and i > start:
            # nested fn: its parameter/local names may coincide; ban them here
            pass
        if t[0] == "p1" and t[1] == "$":
            j = sig(toks, i, 1)
            if j is not None and toks[j][0] == "id":
                banned.add(toks[j][1])
        if t[0] == "id":
            j = sig(toks, i, 1)
            pj = sig(toks, i, -1)
            if j is not None and toks[j][1] in ("(", "!") and not (pj is not None and toks[pj][1] in (".", "::")):
                banned.add(t[1])        # called like a function / macro: may name an outer item
    names -= banned
    names = {nm for nm in names if not nm.startswith("_")}
    if not names:
        return 0
    # delimiter stack to recognise struct shorthand
    stack = []
    cnt = 0
    for i in range(start, end + 1):
        t = toks[i]
        if t[0] == "p1" and t[1] in "{([":
            kind = t[1]
            if t[1] == "{":
                pb = sig(toks, i, -1)
                if pb is not None and toks[pb][1] == ">":
                    depth = 0
                    while pb is not None:
                        if toks[pb][1] == ">":
                            depth += 1
                        elif toks[pb][1] == "<":
                            depth -= 1
                            if depth == 0:
                                pb = sig(toks, pb, -1)
                                break
                        pb = sig(toks, pb, -1)
                if pb is not None and toks[pb][0] == "id" and (toks[pb][1][0].isupper()):
                    kind = "{s"     # struct literal / struct pattern
            stack.append(kind)
        elif t[0] == "p1" and t[1] in "})]":
            if stack:
                stack.pop()
        if t[0] != "id" or t[1] not in names:
            continue
        p, q = sig(toks, i, -1), sig(toks, i, 1)
        pt = toks[p][1] if p is not None else ""
        qt = toks[q][1] if q is not None else ""
        if pt in (".", "::") or qt == "::" or qt == "!":
            continue
        if qt == ":" and not (pt in ("let", "mut")):
            # `name: value` inside a struct literal is a field name; `let name: T` is a declaration
            if stack and stack[-1] == "{s":
                continue
        new = t[1] + "_lv"
        if stack and stack[-1] == "{s" and pt in ("{", ",") and qt in (",", "}"):
            toks[i][1] = f"{t[1]}: {new}"      # struct shorthand (literal or pattern)
        else:
            toks[i][1] = new
        cnt += 1
    return cnt


def main():
    root = Path(sys.argv[1])
    total = 0
    for p in sorted((root / "sc62015/core/src").rglob("*.rs")):
        text = p.read_text()
        new, k = process(text)
        if k:
            p.write_text(new)
            total += k
    print(f"renamed {total} identifier occurrences")


if __name__ == "__main__":
    main()
