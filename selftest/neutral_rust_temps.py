#!/usr/bin/env python3
"""Behaviour-preserving rewrite of the Rust core (selftest only): every statement `self.<fields> = <expr>;` inside a function body
becomes `let sa_t<k> = <expr>; self.<fields> = sa_t<k>;` (the right-hand side is evaluated first in both forms).  Token level; accepted
as a neutral only after the rewritten crate builds (tools/rust_scratch_build.sh).  usage: neutral_rust_temps.py <repo copy>"""
import sys
from pathlib import Path
sys.path.insert(0, str(Path(__file__).resolve().parent))
from neutral_rust_rename import lex, sig  # noqa: E402


def process(text):
    toks = lex(text)
    n = len(toks)
    out = []
    i = 0
    k = 0
    depth_fn = 0
    while i < n:
        t = toks[i]
        if t == ["id", "self"]:
            p = sig(toks, i, -1)
            if p is not None and toks[p][1] in (";", "{", "}"):
                # field chain
                j = i
                ok = True
                chain_end = None
                while True:
                    q = sig(toks, j, 1)
                    if q is None:
                        ok = False
                        break
                    if toks[q][1] == ".":
                        r = sig(toks, q, 1)
                        if r is None or toks[r][0] not in ("id", "num"):
                            ok = False
                            break
                        j = r
                        continue
                    if toks[q][0] == "p1" and toks[q][1] == "=":
                        chain_end = q
                    else:
                        ok = False
                    break
                if ok and chain_end is not None and j != i:
                    # rhs up to `;` at depth 0, no braces
                    d = 0
                    e = chain_end + 1
                    simple = True
                    while e < n:
                        v = toks[e][1]
                        if toks[e][0] == "p1" and v in "([":
                            d += 1
                        elif toks[e][0] == "p1" and v in ")]":
                            d -= 1
                        elif toks[e][0] == "p1" and v in "{}":
                            simple = False
                            break
                        elif toks[e][0] == "p1" and v == ";" and d == 0:
                            break
                        e += 1
                    if simple and e < n and "Box::new" not in "".join(x[1] for x in toks[chain_end + 1:e]):   # unsized coercion needs the field's type
                        k += 1
                        lhs = "".join(x[1] for x in toks[i:chain_end]).strip()
                        rhs = "".join(x[1] for x in toks[chain_end + 1:e]).strip()
                        out.append(f"let sa_t{k} = {rhs}; {lhs} = sa_t{k};")
                        i = e + 1
                        continue
        out.append(t[1])
        i += 1
    return "".join(out), k


def main():
    root = Path(sys.argv[1])
    total = 0
    for p in sorted((root / "sc62015/core/src").rglob("*.rs")):
        new, k = process(p.read_text())
        if k:
            p.write_text(new)
            total += k
    print(f"introduced {total} temporaries")


if __name__ == "__main__":
    main()
