#!/usr/bin/env python3
"""Behaviour-preserving rewrite used as a robustness test of the rules (selftest only): in every function of the production Python
sources, `return E` becomes `_sa_t = E; return _sa_t` and `obj.attr = E` / `obj[i] = E` becomes `_sa_t = E; obj.attr = _sa_t`
(Python evaluates the right-hand side first in both forms, so order of evaluation is unchanged).  The files are regenerated with
ast.unparse, which also drops comments and normalises layout.  usage: neutral_temps.py <repo copy> [returns|stores|both]"""
import ast, sys
from pathlib import Path

MODE = sys.argv[2] if len(sys.argv) > 2 else "both"


class T(ast.NodeTransformer):
    def __init__(self):
        self.k = 0
        self.depth = 0
        self.changed = 0

    def fresh(self):
        self.k += 1
        return f"_sa_t{self.k}"

    def visit_FunctionDef(self, node):
        self.depth += 1
        self.generic_visit(node)
        self.depth -= 1
        return node
    visit_AsyncFunctionDef = visit_FunctionDef

    def visit_Lambda(self, node):
        return node

    def visit_ClassDef(self, node):
        d, self.depth = self.depth, 0
        self.generic_visit(node)
        self.depth = d
        return node

    def visit_Return(self, node):
        if self.depth and MODE in ("returns", "both") and node.value is not None and not isinstance(node.value, (ast.Name, ast.Constant)):
            n = self.fresh()
            self.changed += 1
            return [ast.copy_location(ast.Assign([ast.Name(n, ast.Store())], node.value, lineno=node.lineno), node), ast.copy_location(ast.Return(ast.Name(n, ast.Load())), node)]
        return node

    def visit_Assign(self, node):
        if (self.depth and MODE in ("stores", "both") and len(node.targets) == 1 and isinstance(node.targets[0], (ast.Attribute, ast.Subscript))
                and not isinstance(node.value, (ast.Name, ast.Constant))):
            n = self.fresh()
            self.changed += 1
            return [ast.copy_location(ast.Assign([ast.Name(n, ast.Store())], node.value, lineno=node.lineno), node), ast.copy_location(ast.Assign(node.targets, ast.Name(n, ast.Load()), lineno=node.lineno), node)]
        return node


def main():
    root = Path(sys.argv[1])
    files = [p for d in ("sc62015", "pce500") for p in (root / d).rglob("*.py") if "test" not in p.name and "/tests/" not in str(p) and "third_party" not in str(p)]
    total = 0
    for p in files:
        try:
            tree = ast.parse(p.read_text())
        except SyntaxError:
            continue
        t = T()
        tree = t.visit(tree)
        ast.fix_missing_locations(tree)
        if t.changed:
            p.write_text(ast.unparse(tree) + "\n")
            total += t.changed
    print(f"rewrote {total} statements in {len(files)} files")


if __name__ == "__main__":
    main()
