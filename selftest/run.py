#!/usr/bin/env python3
"""Both-ways self-test of the checks.

Every *mutant* is applied to a scratch copy of /repo's working tree (under /var/tmp, removed afterwards):
  break   - a behaviour-changing edit; at least one of the listed checks must exit 1 with a VIOLATION line (and mention `expect`)
  neutral - a behaviour-preserving edit (rename, reorder, reformat, comment); all listed checks must stay exit 0
Mutant sources: reverse-applied `fix:` commits of /repo (each repaired defect must be reported again if it returns), textual
replacements (selftest/mutants.py), and the seeded patches kept under /verif/seeded/.

usage: selftest/run.py [--only C09,C10] [--id substring] [--list] [--keep]
"""
from __future__ import annotations

import argparse
import json
import os
import shutil
import subprocess
import sys
import time
from pathlib import Path

VERIF = Path(__file__).resolve().parent.parent
REPO = Path(os.environ.get("VERIF_REPO", "/repo"))
SCRATCH = Path("/var/tmp/verif-selftest")

sys.path.insert(0, str(VERIF / "selftest"))
from mutants import MUTANTS  # noqa: E402


def seeded() -> list[dict]:
    out = []
    for meta in sorted((VERIF / "seeded").glob("*/*/meta.json")):
        m = json.loads(meta.read_text())
        patch = meta.parent / "patch.diff"
        if not patch.exists() or not m.get("expected_detected_by"):
            continue
        out.append({"id": f"seeded/{meta.parent.parent.name}/{meta.parent.name}", "kind": "break", "patch": str(patch), "props": m["expected_detected_by"], "expect": m.get("expect_substring", "")})
    return out


def make_copy(dst: Path) -> None:
    if dst.exists():
        shutil.rmtree(dst)
    dst.parent.mkdir(parents=True, exist_ok=True)
    subprocess.run(["rsync", "-a", "--exclude", ".git", "--exclude", "target", "--exclude", "__pycache__", f"{REPO}/", f"{dst}/"], check=True)


def apply(m: dict, dst: Path) -> str | None:
    if "revert" in m:
        d = subprocess.run(["git", "-C", str(REPO), "show", "--format=", m["revert"]], capture_output=True, text=True, check=True).stdout
        r = subprocess.run(["patch", "-R", "-p1", "-s", "-d", str(dst)], input=d, text=True, capture_output=True)
        return None if r.returncode == 0 else f"reverse patch failed: {r.stdout}{r.stderr}"
    if "patch" in m:
        r = subprocess.run(["patch", "-p1", "-s", "-d", str(dst), "-i", m["patch"]], capture_output=True, text=True)
        return None if r.returncode == 0 else f"patch failed: {r.stdout}{r.stderr}"
    if "cmd" in m:
        r = subprocess.run(m["cmd"], shell=True, cwd=str(dst), capture_output=True, text=True)
        return None if r.returncode == 0 else f"command failed: {r.stdout[-300:]}{r.stderr[-300:]}"
    for e in m["edits"]:
        f = dst / e["file"]
        s = f.read_text()
        if s.count(e["old"]) < 1:
            return f"edit anchor not found in {e['file']}: {e['old'][:60]!r}"
        s = s.replace(e["old"], e["new"], e.get("count", 1))
        f.write_text(s)
    return None


def run_check(prop: str, repo: Path, evdir: Path) -> tuple[int, str]:
    env = dict(os.environ, VERIF_REPO=str(repo), VERIF_EVIDENCE_DIR=str(evdir))
    r = subprocess.run([str(VERIF / "check"), prop], capture_output=True, text=True, env=env)
    return r.returncode, r.stdout + r.stderr


def main() -> int:
    ap = argparse.ArgumentParser()
    ap.add_argument("--only", default="")
    ap.add_argument("--id", default="")
    ap.add_argument("--list", action="store_true")
    ap.add_argument("--keep", action="store_true")
    a = ap.parse_args()
    only = {p.strip().upper() for p in a.only.split(",") if p.strip()}
    muts = [m for m in MUTANTS + seeded() if (not only or only & set(m["props"])) and a.id in m["id"]]
    if a.list:
        for m in muts:
            print(m["kind"], m["id"], m["props"])
        return 0
    bad = 0
    t0 = time.time()
    for m in muts:
        dst = SCRATCH / m["id"].replace("/", "_")
        make_copy(dst)
        err = apply(m, dst)
        if err:
            print(f"SELFTEST-BROKEN {m['id']}: {err}")
            bad += 1
            shutil.rmtree(dst, ignore_errors=True)
            continue
        props = [p for p in m["props"] if not only or p in only]
        results = {}
        for p in props:
            rc, out = run_check(p, dst, dst.parent / (dst.name + "_ev"))
            results[p] = (rc, out)
        if m["kind"] == "break":
            hit = [p for p, (rc, out) in results.items() if rc == 1 and "VIOLATION property=" in out and (not m.get("expect") or m["expect"] in out)]
            broken = [p for p, (rc, _o) in results.items() if rc == 2]
            if hit:
                print(f"ok    break   {m['id']}: reported by {hit}" + (f" (analysis-error in {broken})" if broken else ""))
            else:
                bad += 1
                print(f"MISS  break   {m['id']}: exit codes { {p: rc for p, (rc, _o) in results.items()} }")
                for p, (rc, out) in results.items():
                    print("      ", p, out.strip().splitlines()[-1][:200] if out.strip() else "")
        else:
            noisy = [p for p, (rc, _o) in results.items() if rc != 0]
            if noisy:
                bad += 1
                print(f"ALARM neutral {m['id']}: { {p: results[p][0] for p in noisy} }")
                for p in noisy:
                    print("      ", "\n       ".join(results[p][1].strip().splitlines()[-4:])[:600])
            else:
                print(f"ok    neutral {m['id']}: silent in {props}")
        if not a.keep:
            shutil.rmtree(dst, ignore_errors=True)
            shutil.rmtree(dst.parent / (dst.name + "_ev"), ignore_errors=True)
    if not a.keep:
        shutil.rmtree(SCRATCH, ignore_errors=True)
    print(f"selftest: {len(muts)} mutants, {bad} problem(s), {time.time() - t0:.0f}s")
    return 1 if bad else 0


if __name__ == "__main__":
    sys.exit(main())
