#!/bin/sh
# Build the Rust syntax-tree dumper from vendored sources (offline).
set -e
cd "$(dirname "$0")/tools/rsfacts"
CARGO_NET_OFFLINE=true CARGO_TARGET_DIR="$(cd ../.. && pwd)/.build/rsfacts" cargo build --offline --release --quiet
echo "rsfacts built"
