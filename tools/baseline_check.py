#!/venv/bin/python
"""Run the repository's pinned suite (guard off) and compare with /root/.vp/BASELINE.json stable_pass."""
import json, subprocess, sys, tempfile, os, xml.etree.ElementTree as ET
base = json.load(open("/root/.vp/BASELINE.json"))
out = tempfile.mktemp(suffix=".xml")
cmd = ["/venv/bin/python", "-m", "pytest", "-q", "-p", "no:cacheprovider", "--timeout=900", "--continue-on-collection-errors", "-n", "8", f"--junitxml={out}"]
env = dict(os.environ); env.pop("BINJA_ESR_VERIF", None)
r = subprocess.run(cmd, cwd="/repo", env=env, capture_output=True, text=True)
passed = set()
for tc in ET.parse(out).getroot().iter("testcase"):
    if not list(tc):
        passed.add(f"{tc.get('classname')}::{tc.get('name')}")
os.unlink(out)
want = set(base["stable_pass"])
missing = sorted(want - passed)
print(f"stable_pass={len(want)} passed_now={len(passed)} missing={len(missing)}")
for m in missing[:20]:
    print("  MISSING", m)
sys.exit(1 if missing else 0)
