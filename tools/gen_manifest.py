#!/venv/bin/python
"""Regenerate MANIFEST.json from the check modules' metadata (run by hand after adding a check)."""
import importlib, json, sys
from pathlib import Path
ROOT = Path(__file__).resolve().parent.parent
sys.path.insert(0, str(ROOT))
props = [json.loads(l) for l in (ROOT / "properties.jsonl").read_text().splitlines() if l.strip()]
checks, na = [], []
for p in props:
    pid = p["id"]
    try:
        m = importlib.import_module(f"sa.checks.{pid.lower()}")
    except ModuleNotFoundError:
        na.append({"property_id": pid, "reason": "static check not implemented yet in this commit (see DESIGN.md section 2 for the planned clauses)"})
        continue
    if getattr(m, "NOT_APPLICABLE", None):
        na.append({"property_id": pid, "reason": m.NOT_APPLICABLE})
        continue
    checks.append({
        "property_id": pid,
        "quick_cmd": f"./check {pid} --tier quick",
        "thorough_cmd": f"./check {pid} --tier thorough",
        "evidence_file": f"evidence/{pid}.json",
        "replay_cmd_template": "cat {path}",
        "engine": "sa",
        "level_claimed": {"category": m.LEVEL, "text": m.CLAIM, "design_ref": f"DESIGN.md section 2, {pid}"},
        "level_note": m.NOTE,
        "technique": m.TECHNIQUE,
    })
manifest = {
    "version": 1,
    "setup_cmd": "./setup.sh",
    "hooks": {
        "guard": "BINJA_ESR_VERIF",
        "enable": "none: static analysis needs no instrumentation; the guard variable is never read",
        "baseline_off_cmd": "cd /repo && /venv/bin/python -m pytest -ra -q -p no:cacheprovider --timeout=900 --continue-on-collection-errors",
        "source_commits": [],
        "add_only": True,
    },
    "engines": [{
        "name": "sa", "path": "sa/",
        "serves_properties": [c["property_id"] for c in checks],
        "kind_free_text": "repository-specific static analysis: Python ast + constant folding + class table/MRO + statement CFG/dominators; Rust syntax trees from a vendored syn-based dumper (tools/rsfacts); README pipe tables; declarative rule instances with site-count floors",
    }],
    "checks": checks,
    "not_applicable": na,
    "notes": "Exit 0 ok / 1 VIOLATION / 2 ANALYSIS-ERROR (broken analysis, never a silent pass). known_findings.json lists genuine defects recorded rather than repaired.",
}
(ROOT / "MANIFEST.json").write_text(json.dumps(manifest, indent=1) + "\n")
print(f"{len(checks)} checks, {len(na)} not_applicable")
