// rsfacts: dump the syntax tree of Rust source files as compact JSON.
//
// Usage: rsfacts <file.rs>...   -> one JSON document on stdout:
//   {"files":[{"path":..., "ok":true, "items":[...]}, ...]}
//
// The tree is generic: every node is an object with "k" (kind) and "ln" (line)
// plus kind-specific children.  Types are emitted as normalised token strings.
// Selected macros (matches!, vec!, format!-family, assert*!, json!, debug_assert*!)
// are re-parsed into expression lists; any other macro keeps its token string.

use proc_macro2::{Span, TokenStream, TokenTree};
use quote::ToTokens;
use std::fmt::Write as _;
use syn::punctuated::Punctuated;
use syn::spanned::Spanned;
use syn::*;

enum J {
    Null,
    Bool(bool),
    Num(i64),
    Str(String),
    Arr(Vec<J>),
    Obj(Vec<(&'static str, J)>),
}

fn esc(s: &str, out: &mut String) {
    out.push('"');
    for c in s.chars() {
        match c {
            '"' => out.push_str("\\\""),
            '\\' => out.push_str("\\\\"),
            '\n' => out.push_str("\\n"),
            '\r' => out.push_str("\\r"),
            '\t' => out.push_str("\\t"),
            c if (c as u32) < 0x20 => {
                let _ = write!(out, "\\u{:04x}", c as u32);
            }
            c => out.push(c),
        }
    }
    out.push('"');
}

impl J {
    fn write(&self, out: &mut String) {
        match self {
            J::Null => out.push_str("null"),
            J::Bool(b) => out.push_str(if *b { "true" } else { "false" }),
            J::Num(n) => {
                let _ = write!(out, "{}", n);
            }
            J::Str(s) => esc(s, out),
            J::Arr(v) => {
                out.push('[');
                for (i, x) in v.iter().enumerate() {
                    if i > 0 {
                        out.push(',');
                    }
                    x.write(out);
                }
                out.push(']');
            }
            J::Obj(v) => {
                out.push('{');
                let mut first = true;
                for (k, x) in v.iter() {
                    if let J::Null = x {
                        continue;
                    }
                    if !first {
                        out.push(',');
                    }
                    first = false;
                    esc(k, out);
                    out.push(':');
                    x.write(out);
                }
                out.push('}');
            }
        }
    }
}

fn s<T: Into<String>>(x: T) -> J {
    J::Str(x.into())
}

fn ln(sp: Span) -> J {
    J::Num(sp.start().line as i64)
}

fn toks<T: ToTokens>(t: &T) -> String {
    norm(&t.to_token_stream().to_string())
}

fn norm(x: &str) -> String {
    // collapse whitespace
    let mut out = String::with_capacity(x.len());
    let mut prev_space = false;
    for c in x.chars() {
        if c.is_whitespace() {
            if !prev_space {
                out.push(' ');
            }
            prev_space = true;
        } else {
            out.push(c);
            prev_space = false;
        }
    }
    out.trim().to_string()
}

fn node(k: &'static str, sp: Span, mut fields: Vec<(&'static str, J)>) -> J {
    let mut v = vec![("k", s(k)), ("ln", ln(sp))];
    v.append(&mut fields);
    J::Obj(v)
}

fn opt<T>(o: &Option<T>, f: impl Fn(&T) -> J) -> J {
    match o {
        Some(x) => f(x),
        None => J::Null,
    }
}

fn attrs_j(attrs: &[Attribute]) -> J {
    if attrs.is_empty() {
        return J::Null;
    }
    J::Arr(
        attrs
            .iter()
            .filter(|a| !a.path().is_ident("doc"))
            .map(|a| s(toks(&a.meta)))
            .collect(),
    )
}

fn is_cfg_test(attrs: &[Attribute]) -> bool {
    attrs.iter().any(|a| {
        a.path().is_ident("cfg") && {
            let t = toks(&a.meta);
            t.contains("test") && !t.contains("not (test)") && !t.contains("not(test)")
        }
    }) || attrs.iter().any(|a| a.path().is_ident("test"))
}

fn path_j(p: &Path) -> String {
    let mut out = String::new();
    if p.leading_colon.is_some() {
        out.push_str("::");
    }
    for (i, seg) in p.segments.iter().enumerate() {
        if i > 0 {
            out.push_str("::");
        }
        out.push_str(&seg.ident.to_string());
        // generic args are dropped from the path string on purpose
    }
    out
}

fn path_generics(p: &Path) -> J {
    let mut has = false;
    for seg in p.segments.iter() {
        if !matches!(seg.arguments, PathArguments::None) {
            has = true;
        }
    }
    if has {
        s(toks(p))
    } else {
        J::Null
    }
}

fn lit_j(l: &Lit) -> J {
    let sp = l.span();
    match l {
        Lit::Int(i) => {
            let digits = i.base10_digits().to_string();
            node(
                "lit",
                sp,
                vec![
                    ("t", s("int")),
                    ("v", s(digits)),
                    ("suffix", if i.suffix().is_empty() { J::Null } else { s(i.suffix()) }),
                ],
            )
        }
        Lit::Str(x) => node("lit", sp, vec![("t", s("str")), ("v", s(x.value()))]),
        Lit::Bool(b) => node("lit", sp, vec![("t", s("bool")), ("v", J::Bool(b.value))]),
        Lit::Char(c) => node("lit", sp, vec![("t", s("char")), ("v", s(c.value().to_string()))]),
        Lit::Byte(b) => node("lit", sp, vec![("t", s("int")), ("v", s(b.value().to_string()))]),
        Lit::Float(f) => node("lit", sp, vec![("t", s("float")), ("v", s(f.base10_digits()))]),
        Lit::ByteStr(b) => node(
            "lit",
            sp,
            vec![("t", s("bytes")), ("v", J::Arr(b.value().iter().map(|x| J::Num(*x as i64)).collect()))],
        ),
        _ => node("lit", sp, vec![("t", s("other")), ("v", s(toks(l)))]),
    }
}

fn binop(op: &BinOp) -> (&'static str, bool) {
    match op {
        BinOp::Add(_) => ("+", false),
        BinOp::Sub(_) => ("-", false),
        BinOp::Mul(_) => ("*", false),
        BinOp::Div(_) => ("/", false),
        BinOp::Rem(_) => ("%", false),
        BinOp::And(_) => ("&&", false),
        BinOp::Or(_) => ("||", false),
        BinOp::BitXor(_) => ("^", false),
        BinOp::BitAnd(_) => ("&", false),
        BinOp::BitOr(_) => ("|", false),
        BinOp::Shl(_) => ("<<", false),
        BinOp::Shr(_) => (">>", false),
        BinOp::Eq(_) => ("==", false),
        BinOp::Lt(_) => ("<", false),
        BinOp::Le(_) => ("<=", false),
        BinOp::Ne(_) => ("!=", false),
        BinOp::Ge(_) => (">=", false),
        BinOp::Gt(_) => (">", false),
        BinOp::AddAssign(_) => ("+", true),
        BinOp::SubAssign(_) => ("-", true),
        BinOp::MulAssign(_) => ("*", true),
        BinOp::DivAssign(_) => ("/", true),
        BinOp::RemAssign(_) => ("%", true),
        BinOp::BitXorAssign(_) => ("^", true),
        BinOp::BitAndAssign(_) => ("&", true),
        BinOp::BitOrAssign(_) => ("|", true),
        BinOp::ShlAssign(_) => ("<<", true),
        BinOp::ShrAssign(_) => (">>", true),
        _ => ("?", false),
    }
}

fn src_of<T: ToTokens>(t: &T) -> J {
    let x = toks(t);
    if x.len() <= 240 {
        s(x)
    } else {
        let mut cut = 240;
        while !x.is_char_boundary(cut) {
            cut -= 1;
        }
        s(format!("{}…", &x[..cut]))
    }
}

fn block_j(b: &Block) -> J {
    node(
        "block",
        b.span(),
        vec![("stmts", J::Arr(b.stmts.iter().map(stmt_j).collect()))],
    )
}

fn stmt_j(st: &Stmt) -> J {
    match st {
        Stmt::Local(l) => {
            let (init, els) = match &l.init {
                Some(i) => (
                    expr_j(&i.expr),
                    match &i.diverge {
                        Some((_, e)) => expr_j(e),
                        None => J::Null,
                    },
                ),
                None => (J::Null, J::Null),
            };
            node(
                "let",
                l.span(),
                vec![("pat", pat_j(&l.pat)), ("init", init), ("else", els), ("src", src_of(l))],
            )
        }
        Stmt::Item(i) => node("item_stmt", i.span(), vec![("item", item_j(i))]),
        Stmt::Expr(e, semi) => node(
            "expr_stmt",
            e.span(),
            vec![("e", expr_j(e)), ("semi", J::Bool(semi.is_some())), ("src", src_of(e))],
        ),
        Stmt::Macro(m) => node(
            "expr_stmt",
            m.span(),
            vec![("e", macro_j(&m.mac)), ("semi", J::Bool(m.semi_token.is_some())), ("src", src_of(m))],
        ),
    }
}

fn parse_expr_list(ts: TokenStream) -> Option<Vec<Expr>> {
    let parser = Punctuated::<Expr, Token![,]>::parse_terminated;
    match syn::parse::Parser::parse2(parser, ts) {
        Ok(p) => Some(p.into_iter().collect()),
        Err(_) => None,
    }
}

struct MatchesArgs {
    scrutinee: Expr,
    pat: Pat,
    guard: Option<Expr>,
}

impl syn::parse::Parse for MatchesArgs {
    fn parse(input: syn::parse::ParseStream) -> Result<Self> {
        let scrutinee: Expr = input.parse()?;
        input.parse::<Token![,]>()?;
        let pat = Pat::parse_multi_with_leading_vert(input)?;
        let guard = if input.peek(Token![if]) {
            input.parse::<Token![if]>()?;
            Some(input.parse::<Expr>()?)
        } else {
            None
        };
        let _ = input.parse::<Option<Token![,]>>()?;
        Ok(MatchesArgs { scrutinee, pat, guard })
    }
}

struct StaticList(Vec<ItemStatic>);
impl syn::parse::Parse for StaticList {
    fn parse(input: syn::parse::ParseStream) -> Result<Self> {
        let mut v = Vec::new();
        while !input.is_empty() {
            v.push(input.parse::<ItemStatic>()?);
        }
        Ok(StaticList(v))
    }
}

fn macro_j(m: &Macro) -> J {
    let name = path_j(&m.path);
    let last = name.rsplit("::").next().unwrap_or("").to_string();
    let sp = m.span();
    if last == "matches" {
        if let Ok(a) = syn::parse2::<MatchesArgs>(m.tokens.clone()) {
            return node(
                "matches",
                sp,
                vec![
                    ("e", expr_j(&a.scrutinee)),
                    ("pat", pat_j(&a.pat)),
                    ("guard", opt(&a.guard, |g| expr_j(g))),
                    ("src", src_of(m)),
                ],
            );
        }
    }
    if last == "thread_local" {
        if let Ok(list) = syn::parse2::<StaticList>(m.tokens.clone()) {
            return node(
                "macro_items",
                sp,
                vec![
                    ("name", s(name)),
                    (
                        "items",
                        J::Arr(list.0.iter().map(|i| item_j(&Item::Static(i.clone()))).collect()),
                    ),
                ],
            );
        }
    }
    let listy = [
        "vec", "format", "println", "eprintln", "print", "eprint", "write", "writeln", "assert",
        "assert_eq", "assert_ne", "debug_assert", "debug_assert_eq", "debug_assert_ne", "panic",
        "unreachable", "todo", "unimplemented", "json", "dbg", "anyhow", "bail", "ensure",
    ];
    if listy.contains(&last.as_str()) {
        if let Some(args) = parse_expr_list(m.tokens.clone()) {
            return node(
                "macro",
                sp,
                vec![
                    ("name", s(name)),
                    ("args", J::Arr(args.iter().map(expr_j).collect())),
                    ("src", src_of(m)),
                ],
            );
        }
        // vec![x; n]
        if last == "vec" {
            if let Ok(r) = syn::parse2::<ExprRepeatBody>(m.tokens.clone()) {
                return node(
                    "macro",
                    sp,
                    vec![
                        ("name", s(name)),
                        ("repeat", J::Arr(vec![expr_j(&r.0), expr_j(&r.1)])),
                        ("src", src_of(m)),
                    ],
                );
            }
        }
    }
    // unknown macro: keep identifiers so that WHO-MAY style rules can still see names
    let mut idents: Vec<J> = Vec::new();
    collect_idents(m.tokens.clone(), &mut idents);
    node(
        "macro",
        sp,
        vec![("name", s(name)), ("tokens", src_of(&m.tokens)), ("idents", J::Arr(idents))],
    )
}

struct ExprRepeatBody(Expr, Expr);
impl syn::parse::Parse for ExprRepeatBody {
    fn parse(input: syn::parse::ParseStream) -> Result<Self> {
        let a: Expr = input.parse()?;
        input.parse::<Token![;]>()?;
        let b: Expr = input.parse()?;
        Ok(ExprRepeatBody(a, b))
    }
}

fn collect_idents(ts: TokenStream, out: &mut Vec<J>) {
    for t in ts {
        match t {
            TokenTree::Ident(i) => out.push(s(i.to_string())),
            TokenTree::Group(g) => collect_idents(g.stream(), out),
            _ => {}
        }
    }
}

fn arm_j(a: &Arm) -> J {
    node(
        "arm",
        a.span(),
        vec![
            ("pat", pat_j(&a.pat)),
            ("guard", match &a.guard {
                Some((_, g)) => expr_j(g),
                None => J::Null,
            }),
            ("body", expr_j(&a.body)),
            ("pat_src", src_of(&a.pat)),
        ],
    )
}

fn expr_j(e: &Expr) -> J {
    let sp = e.span();
    match e {
        Expr::Array(x) => node("array", sp, vec![("elems", J::Arr(x.elems.iter().map(expr_j).collect()))]),
        Expr::Assign(x) => node(
            "assign",
            sp,
            vec![("l", expr_j(&x.left)), ("r", expr_j(&x.right)), ("src", src_of(e))],
        ),
        Expr::Binary(x) => {
            let (op, compound) = binop(&x.op);
            if compound {
                node(
                    "opassign",
                    sp,
                    vec![("op", s(op)), ("l", expr_j(&x.left)), ("r", expr_j(&x.right)), ("src", src_of(e))],
                )
            } else {
                node(
                    "binary",
                    sp,
                    vec![("op", s(op)), ("l", expr_j(&x.left)), ("r", expr_j(&x.right)), ("src", src_of(e))],
                )
            }
        }
        Expr::Block(x) => {
            let mut b = block_j(&x.block);
            if let (J::Obj(v), Some(l)) = (&mut b, &x.label) {
                v.push(("label", s(l.name.ident.to_string())));
            }
            b
        }
        Expr::Break(x) => node(
            "break",
            sp,
            vec![
                ("label", opt(&x.label, |l| s(l.ident.to_string()))),
                ("e", opt(&x.expr, |e| expr_j(e))),
            ],
        ),
        Expr::Call(x) => node(
            "call",
            sp,
            vec![
                ("f", expr_j(&x.func)),
                ("args", J::Arr(x.args.iter().map(expr_j).collect())),
                ("src", src_of(e)),
            ],
        ),
        Expr::Cast(x) => node("cast", sp, vec![("e", expr_j(&x.expr)), ("ty", s(toks(&*x.ty)))]),
        Expr::Closure(x) => node(
            "closure",
            sp,
            vec![
                ("params", J::Arr(x.inputs.iter().map(pat_j).collect())),
                ("body", expr_j(&x.body)),
                ("move", J::Bool(x.capture.is_some())),
            ],
        ),
        Expr::Continue(x) => node("continue", sp, vec![("label", opt(&x.label, |l| s(l.ident.to_string())))]),
        Expr::Field(x) => node(
            "field",
            sp,
            vec![
                ("e", expr_j(&x.base)),
                ("name", match &x.member {
                    Member::Named(i) => s(i.to_string()),
                    Member::Unnamed(i) => s(i.index.to_string()),
                }),
                ("src", src_of(e)),
            ],
        ),
        Expr::ForLoop(x) => node(
            "for",
            sp,
            vec![
                ("pat", pat_j(&x.pat)),
                ("iter", expr_j(&x.expr)),
                ("body", block_j(&x.body)),
                ("label", opt(&x.label, |l| s(l.name.ident.to_string()))),
            ],
        ),
        Expr::Group(x) => expr_j(&x.expr),
        Expr::If(x) => node(
            "if",
            sp,
            vec![
                ("cond", expr_j(&x.cond)),
                ("then", block_j(&x.then_branch)),
                ("else", match &x.else_branch {
                    Some((_, e)) => expr_j(e),
                    None => J::Null,
                }),
                ("cond_src", src_of(&*x.cond)),
            ],
        ),
        Expr::Index(x) => node(
            "index",
            sp,
            vec![("e", expr_j(&x.expr)), ("i", expr_j(&x.index)), ("src", src_of(e))],
        ),
        Expr::Let(x) => node("let_cond", sp, vec![("pat", pat_j(&x.pat)), ("e", expr_j(&x.expr))]),
        Expr::Lit(x) => lit_j(&x.lit),
        Expr::Loop(x) => node(
            "loop",
            sp,
            vec![("body", block_j(&x.body)), ("label", opt(&x.label, |l| s(l.name.ident.to_string())))],
        ),
        Expr::Macro(x) => macro_j(&x.mac),
        Expr::Match(x) => node(
            "match",
            sp,
            vec![
                ("e", expr_j(&x.expr)),
                ("arms", J::Arr(x.arms.iter().map(arm_j).collect())),
                ("e_src", src_of(&*x.expr)),
            ],
        ),
        Expr::MethodCall(x) => node(
            "mcall",
            sp,
            vec![
                ("recv", expr_j(&x.receiver)),
                ("m", s(x.method.to_string())),
                ("turbofish", opt(&x.turbofish, |t| s(toks(t)))),
                ("args", J::Arr(x.args.iter().map(expr_j).collect())),
                ("src", src_of(e)),
            ],
        ),
        Expr::Paren(x) => node("paren", sp, vec![("e", expr_j(&x.expr))]),
        Expr::Path(x) => node(
            "path",
            sp,
            vec![("p", s(path_j(&x.path))), ("generics", path_generics(&x.path))],
        ),
        Expr::Range(x) => node(
            "range",
            sp,
            vec![
                ("lo", opt(&x.start, |e| expr_j(e))),
                ("hi", opt(&x.end, |e| expr_j(e))),
                ("closed", J::Bool(matches!(x.limits, RangeLimits::Closed(_)))),
            ],
        ),
        Expr::Reference(x) => node(
            "ref",
            sp,
            vec![("mut", J::Bool(x.mutability.is_some())), ("e", expr_j(&x.expr))],
        ),
        Expr::Repeat(x) => node("repeat", sp, vec![("e", expr_j(&x.expr)), ("len", expr_j(&x.len))]),
        Expr::Return(x) => node("return", sp, vec![("e", opt(&x.expr, |e| expr_j(e))), ("src", src_of(e))]),
        Expr::Struct(x) => node(
            "struct_lit",
            sp,
            vec![
                ("p", s(path_j(&x.path))),
                (
                    "fields",
                    J::Arr(
                        x.fields
                            .iter()
                            .map(|f| {
                                J::Obj(vec![
                                    ("name", match &f.member {
                                        Member::Named(i) => s(i.to_string()),
                                        Member::Unnamed(i) => s(i.index.to_string()),
                                    }),
                                    ("e", expr_j(&f.expr)),
                                ])
                            })
                            .collect(),
                    ),
                ),
                ("rest", opt(&x.rest, |e| expr_j(e))),
                ("dots", J::Bool(x.dot2_token.is_some())),
            ],
        ),
        Expr::Try(x) => node("try", sp, vec![("e", expr_j(&x.expr))]),
        Expr::Tuple(x) => node("tuple", sp, vec![("elems", J::Arr(x.elems.iter().map(expr_j).collect()))]),
        Expr::Unary(x) => node(
            "unary",
            sp,
            vec![
                ("op", s(match x.op {
                    UnOp::Deref(_) => "*",
                    UnOp::Not(_) => "!",
                    UnOp::Neg(_) => "-",
                    _ => "?",
                })),
                ("e", expr_j(&x.expr)),
            ],
        ),
        Expr::Unsafe(x) => block_j(&x.block),
        Expr::While(x) => node(
            "while",
            sp,
            vec![
                ("cond", expr_j(&x.cond)),
                ("body", block_j(&x.body)),
                ("label", opt(&x.label, |l| s(l.name.ident.to_string()))),
                ("cond_src", src_of(&*x.cond)),
            ],
        ),
        Expr::Async(x) => node("async", sp, vec![("body", block_j(&x.block)), ("move", J::Bool(x.capture.is_some()))]),
        Expr::Await(x) => node("await", sp, vec![("e", expr_j(&x.base))]),
        Expr::Const(x) => block_j(&x.block),
        Expr::Infer(_) => node("infer", sp, vec![]),
        Expr::TryBlock(x) => block_j(&x.block),
        _ => node("unknown_expr", sp, vec![("src", src_of(e))]),
    }
}

fn pat_j(p: &Pat) -> J {
    let sp = p.span();
    match p {
        Pat::Ident(x) => node(
            "p_ident",
            sp,
            vec![
                ("name", s(x.ident.to_string())),
                ("mut", J::Bool(x.mutability.is_some())),
                ("ref", J::Bool(x.by_ref.is_some())),
                ("sub", match &x.subpat {
                    Some((_, p)) => pat_j(p),
                    None => J::Null,
                }),
            ],
        ),
        Pat::Lit(x) => node("p_lit", sp, vec![("e", lit_j(&x.lit))]),
        Pat::Or(x) => node("p_or", sp, vec![("cases", J::Arr(x.cases.iter().map(pat_j).collect()))]),
        Pat::Path(x) => node("p_path", sp, vec![("p", s(path_j(&x.path)))]),
        Pat::Range(x) => node(
            "p_range",
            sp,
            vec![
                ("lo", opt(&x.start, |e| expr_j(e))),
                ("hi", opt(&x.end, |e| expr_j(e))),
                ("closed", J::Bool(matches!(x.limits, RangeLimits::Closed(_)))),
            ],
        ),
        Pat::Reference(x) => pat_j(&x.pat),
        Pat::Rest(_) => node("p_rest", sp, vec![]),
        Pat::Slice(x) => node("p_slice", sp, vec![("elems", J::Arr(x.elems.iter().map(pat_j).collect()))]),
        Pat::Struct(x) => node(
            "p_struct",
            sp,
            vec![
                ("p", s(path_j(&x.path))),
                (
                    "fields",
                    J::Arr(
                        x.fields
                            .iter()
                            .map(|f| {
                                J::Obj(vec![
                                    ("name", match &f.member {
                                        Member::Named(i) => s(i.to_string()),
                                        Member::Unnamed(i) => s(i.index.to_string()),
                                    }),
                                    ("pat", pat_j(&f.pat)),
                                ])
                            })
                            .collect(),
                    ),
                ),
                ("rest", J::Bool(x.rest.is_some())),
            ],
        ),
        Pat::Tuple(x) => node("p_tuple", sp, vec![("elems", J::Arr(x.elems.iter().map(pat_j).collect()))]),
        Pat::TupleStruct(x) => node(
            "p_tstruct",
            sp,
            vec![("p", s(path_j(&x.path))), ("elems", J::Arr(x.elems.iter().map(pat_j).collect()))],
        ),
        Pat::Type(x) => {
            let mut inner = pat_j(&x.pat);
            if let J::Obj(v) = &mut inner {
                v.push(("ty", s(toks(&*x.ty))));
            }
            inner
        }
        Pat::Wild(_) => node("p_wild", sp, vec![]),
        Pat::Paren(x) => pat_j(&x.pat),
        Pat::Const(x) => node("p_const", sp, vec![("e", block_j(&x.block))]),
        _ => node("p_unknown", sp, vec![("src", src_of(p))]),
    }
}

fn fields_j(f: &Fields) -> J {
    match f {
        Fields::Named(n) => J::Arr(
            n.named
                .iter()
                .map(|f| {
                    J::Obj(vec![
                        ("name", s(f.ident.as_ref().map(|i| i.to_string()).unwrap_or_default())),
                        ("ty", s(toks(&f.ty))),
                        ("attrs", attrs_j(&f.attrs)),
                        ("pub", J::Bool(!matches!(f.vis, Visibility::Inherited))),
                        ("ln", ln(f.span())),
                    ])
                })
                .collect(),
        ),
        Fields::Unnamed(u) => J::Arr(
            u.unnamed
                .iter()
                .enumerate()
                .map(|(i, f)| {
                    J::Obj(vec![
                        ("name", s(i.to_string())),
                        ("ty", s(toks(&f.ty))),
                        ("attrs", attrs_j(&f.attrs)),
                        ("ln", ln(f.span())),
                    ])
                })
                .collect(),
        ),
        Fields::Unit => J::Arr(vec![]),
    }
}

fn sig_j(sig: &Signature) -> Vec<(&'static str, J)> {
    let mut inputs = Vec::new();
    for a in sig.inputs.iter() {
        match a {
            FnArg::Receiver(r) => inputs.push(J::Obj(vec![
                ("name", s("self")),
                ("ty", s(if r.reference.is_some() {
                    if r.mutability.is_some() { "&mut Self" } else { "&Self" }
                } else {
                    "Self"
                })),
            ])),
            FnArg::Typed(t) => inputs.push(J::Obj(vec![("pat", pat_j(&t.pat)), ("ty", s(toks(&*t.ty)))])),
        }
    }
    vec![
        ("name", s(sig.ident.to_string())),
        ("inputs", J::Arr(inputs)),
        ("ret", match &sig.output {
            ReturnType::Default => J::Null,
            ReturnType::Type(_, t) => s(toks(&**t)),
        }),
        ("async", J::Bool(sig.asyncness.is_some())),
        ("const", J::Bool(sig.constness.is_some())),
    ]
}

fn item_j(it: &Item) -> J {
    let sp = it.span();
    match it {
        Item::Fn(f) => {
            let mut v = sig_j(&f.sig);
            v.push(("attrs", attrs_j(&f.attrs)));
            v.push(("cfg_test", J::Bool(is_cfg_test(&f.attrs))));
            v.push(("pub", J::Bool(!matches!(f.vis, Visibility::Inherited))));
            v.push(("end_ln", J::Num(f.block.span().end().line as i64)));
            v.push(("body", block_j(&f.block)));
            node("fn", sp, v)
        }
        Item::Const(c) => node(
            "const",
            sp,
            vec![
                ("name", s(c.ident.to_string())),
                ("ty", s(toks(&*c.ty))),
                ("e", expr_j(&c.expr)),
                ("attrs", attrs_j(&c.attrs)),
                ("cfg_test", J::Bool(is_cfg_test(&c.attrs))),
                ("pub", J::Bool(!matches!(c.vis, Visibility::Inherited))),
            ],
        ),
        Item::Static(c) => node(
            "static",
            sp,
            vec![
                ("name", s(c.ident.to_string())),
                ("ty", s(toks(&*c.ty))),
                ("e", expr_j(&c.expr)),
                ("mut", J::Bool(matches!(c.mutability, StaticMutability::Mut(_)))),
                ("attrs", attrs_j(&c.attrs)),
                ("cfg_test", J::Bool(is_cfg_test(&c.attrs))),
                ("pub", J::Bool(!matches!(c.vis, Visibility::Inherited))),
            ],
        ),
        Item::Enum(e) => node(
            "enum",
            sp,
            vec![
                ("name", s(e.ident.to_string())),
                ("attrs", attrs_j(&e.attrs)),
                ("cfg_test", J::Bool(is_cfg_test(&e.attrs))),
                (
                    "variants",
                    J::Arr(
                        e.variants
                            .iter()
                            .map(|v| {
                                J::Obj(vec![
                                    ("name", s(v.ident.to_string())),
                                    ("ln", ln(v.span())),
                                    ("disc", match &v.discriminant {
                                        Some((_, e)) => expr_j(e),
                                        None => J::Null,
                                    }),
                                    ("fields", fields_j(&v.fields)),
                                    ("named", J::Bool(matches!(v.fields, Fields::Named(_)))),
                                    ("attrs", attrs_j(&v.attrs)),
                                ])
                            })
                            .collect(),
                    ),
                ),
            ],
        ),
        Item::Struct(st) => node(
            "struct",
            sp,
            vec![
                ("name", s(st.ident.to_string())),
                ("attrs", attrs_j(&st.attrs)),
                ("cfg_test", J::Bool(is_cfg_test(&st.attrs))),
                ("fields", fields_j(&st.fields)),
                ("named", J::Bool(matches!(st.fields, Fields::Named(_)))),
            ],
        ),
        Item::Impl(im) => {
            let mut items = Vec::new();
            for ii in im.items.iter() {
                match ii {
                    ImplItem::Fn(f) => {
                        let mut v = sig_j(&f.sig);
                        v.push(("attrs", attrs_j(&f.attrs)));
                        v.push(("cfg_test", J::Bool(is_cfg_test(&f.attrs))));
                        v.push(("pub", J::Bool(!matches!(f.vis, Visibility::Inherited))));
                        v.push(("end_ln", J::Num(f.block.span().end().line as i64)));
                        v.push(("body", block_j(&f.block)));
                        items.push(node("fn", f.span(), v));
                    }
                    ImplItem::Const(c) => items.push(node(
                        "const",
                        c.span(),
                        vec![
                            ("name", s(c.ident.to_string())),
                            ("ty", s(toks(&c.ty))),
                            ("e", expr_j(&c.expr)),
                            ("attrs", attrs_j(&c.attrs)),
                        ],
                    )),
                    ImplItem::Type(t) => items.push(node(
                        "type",
                        t.span(),
                        vec![("name", s(t.ident.to_string())), ("ty", s(toks(&t.ty)))],
                    )),
                    ImplItem::Macro(m) => items.push(macro_j(&m.mac)),
                    _ => {}
                }
            }
            node(
                "impl",
                sp,
                vec![
                    ("self_ty", s(toks(&*im.self_ty))),
                    ("trait", match &im.trait_ {
                        Some((_, p, _)) => s(path_j(p)),
                        None => J::Null,
                    }),
                    ("attrs", attrs_j(&im.attrs)),
                    ("cfg_test", J::Bool(is_cfg_test(&im.attrs))),
                    ("items", J::Arr(items)),
                ],
            )
        }
        Item::Mod(m) => node(
            "mod",
            sp,
            vec![
                ("name", s(m.ident.to_string())),
                ("attrs", attrs_j(&m.attrs)),
                ("cfg_test", J::Bool(is_cfg_test(&m.attrs))),
                ("items", match &m.content {
                    Some((_, items)) => J::Arr(items.iter().map(item_j).collect()),
                    None => J::Null,
                }),
            ],
        ),
        Item::Use(u) => node("use", sp, vec![("tree", s(toks(&u.tree)))]),
        Item::Type(t) => node(
            "type",
            sp,
            vec![("name", s(t.ident.to_string())), ("ty", s(toks(&*t.ty)))],
        ),
        Item::Trait(t) => {
            let mut items = Vec::new();
            for ti in t.items.iter() {
                if let TraitItem::Fn(f) = ti {
                    let mut v = sig_j(&f.sig);
                    v.push(("attrs", attrs_j(&f.attrs)));
                    v.push(("body", opt(&f.default, |b| block_j(b))));
                    items.push(node("fn", f.span(), v));
                }
            }
            node(
                "trait",
                sp,
                vec![("name", s(t.ident.to_string())), ("items", J::Arr(items))],
            )
        }
        Item::Macro(m) => {
            let mut j = macro_j(&m.mac);
            if let J::Obj(v) = &mut j {
                v.push(("item_macro", J::Bool(true)));
                if let Some(i) = &m.ident {
                    v.push(("ident", s(i.to_string())));
                }
            }
            j
        }
        _ => node("other_item", sp, vec![("src", src_of(it))]),
    }
}

fn main() {
    let args: Vec<String> = std::env::args().skip(1).collect();
    let mut files = Vec::new();
    for path in args.iter() {
        let text = match std::fs::read_to_string(path) {
            Ok(t) => t,
            Err(e) => {
                files.push(J::Obj(vec![
                    ("path", s(path.clone())),
                    ("ok", J::Bool(false)),
                    ("error", s(format!("read: {}", e))),
                ]));
                continue;
            }
        };
        match syn::parse_file(&text) {
            Ok(f) => files.push(J::Obj(vec![
                ("path", s(path.clone())),
                ("ok", J::Bool(true)),
                ("attrs", attrs_j(&f.attrs)),
                ("items", J::Arr(f.items.iter().map(item_j).collect())),
            ])),
            Err(e) => files.push(J::Obj(vec![
                ("path", s(path.clone())),
                ("ok", J::Bool(false)),
                ("error", s(format!("parse: {} at line {}", e, e.span().start().line))),
            ])),
        }
    }
    let mut out = String::new();
    J::Obj(vec![("files", J::Arr(files))]).write(&mut out);
    println!("{}", out);
}
