#!/bin/sh
# Dev-time: run all 18 checks in parallel against a repo copy. usage: tools/run_all.sh <repo dir> <out dir> [tier]
R=${1:-/repo}; O=${2:-/var/tmp/runall}; T=${3:-quick}
mkdir -p "$O"
cd "$(dirname "$0")/.."
for i in 01 02 03 04 05 06 07 08 09 10 11 12 13 14 15 16 17 18; do
  ( VERIF_REPO=$R VERIF_EVIDENCE_DIR=$O/ev ./check C$i --tier $T > $O/C$i.log 2>&1; echo $? > $O/C$i.rc ) &
done
wait
for i in 01 02 03 04 05 06 07 08 09 10 11 12 13 14 15 16 17 18; do
  echo "C$i rc=$(cat $O/C$i.rc) findings=$(grep -c 'finding rule' $O/C$i.log) $(tail -1 $O/C$i.log | cut -c1-150)"
done
