#!/bin/sh
# Dev-time only (never used by a check): build the Rust core in a scratch copy with its optional features off, from the local cargo
# registry cache, to *demonstrate* a finding against the real Rust code.  usage: tools/rust_scratch_build.sh /var/tmp/rcore
set -e
D=${1:-/var/tmp/rcore}
rm -rf "$D"; mkdir -p "$D/vendor"
rsync -a --exclude target /repo/sc62015/core/ "$D/core/"
cat > "$D/core/Cargo.toml" <<'TOML'
[package]
name = "sc62015-core"
version = "0.1.0"
edition = "2021"
[dependencies]
serde = { version = "1.0", features = ["derive"] }
serde_json = "1.0"
thiserror = "1.0"
[features]
default = []
llama-tests = []
cli = []
perfetto = []
snapshot = []
TOML
mkdir -p "$D/core/.cargo"
printf '[source.crates-io]\nreplace-with = "local"\n[source.local]\ndirectory = "%s/vendor"\n' "$D" > "$D/core/.cargo/config.toml"
R=$(ls -d ~/.cargo/registry/src/*/ | head -1)
for c in serde-1.0.228 serde_core-1.0.228 serde_derive-1.0.228 serde_json-1.0.149 thiserror-1.0.69 thiserror-impl-1.0.69 itoa-1.0.17 memchr-2.7.6 zmij-1.0.18 proc-macro2-1.0.106 quote-1.0.45 syn-2.0.117 unicode-ident-1.0.24; do
  cp -r "$R/$c" "$D/vendor/"
  f=$(ls ~/.cargo/registry/cache/*/$c.crate | head -1)
  echo "{\"files\":{},\"package\":\"$(sha256sum "$f" | cut -d' ' -f1)\"}" > "$D/vendor/$c/.cargo-checksum.json"
done
cd "$D/core" && rm -f Cargo.lock && CARGO_NET_OFFLINE=true cargo build --offline --lib
echo "built in $D/core; put an example under examples/ and run: cargo run --offline --example <name>"
