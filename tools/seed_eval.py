#!/usr/bin/env python3
"""Dev-time tool: confirm a sub-agent's seeded change and evaluate the checks against it.

  seed_eval.py confirm C05        # for every patchK.diff in /var/tmp/seed/C05/.seed_out: demo exits 1 patched / 0 original
  seed_eval.py eval C05 [--all]   # apply each patch to a scratch copy of /repo and run ./check C05 (or all checks)
  seed_eval.py keep C05           # copy confirmed patches to /verif/seeded/C05/<k>/{patch.diff,demo.*,meta.json}
"""
from __future__ import annotations

import json
import os
import shutil
import subprocess
import sys
from pathlib import Path

VERIF = Path(__file__).resolve().parent.parent
SEED = Path(os.environ.get("SEED_ROOT", "/var/tmp/seed"))
OFFSET = int(os.environ.get("SEED_OFFSET", "0"))
SCRATCH = Path("/var/tmp/seed-eval")
ALL = [f"C{i:02d}" for i in range(1, 19)]


def sh(cmd: list | str, cwd: Path | None = None, env: dict | None = None, timeout: int = 1800) -> tuple[int, str]:
    r = subprocess.run(cmd, cwd=cwd, env=env, capture_output=True, text=True, shell=isinstance(cmd, str), timeout=timeout)
    return r.returncode, (r.stdout + r.stderr)


def patches(pid: str) -> list[tuple[int, Path]]:
    out = []
    for p in sorted((SEED / pid / ".seed_out").glob("patch*.diff")):
        k = int("".join(ch for ch in p.stem if ch.isdigit()) or 0)
        out.append((k, p))
    return out


def demo_of(pid: str, k: int) -> Path | None:
    for ext in ("py", "sh"):
        d = SEED / pid / ".seed_out" / f"demo{k}.{ext}"
        if d.exists():
            return d
    return None


def run_demo(d: Path, wt: Path) -> tuple[int, str]:
    cmd = ["/venv/bin/python", str(d)] if d.suffix == ".py" else ["sh", str(d)]
    return sh(cmd, cwd=wt, timeout=900)


def confirm(pid: str) -> dict:
    wt = SEED / pid
    res = {}
    sh(["git", "checkout", "--", "."], cwd=wt)
    for k, p in patches(pid):
        d = demo_of(pid, k)
        if d is None:
            res[k] = "no demo"
            continue
        rc0, out0 = run_demo(d, wt)
        rca, outa = sh(["git", "apply", str(p)], cwd=wt)
        if rca != 0:
            res[k] = f"patch does not apply: {outa[:200]}"
            continue
        rc1, out1 = run_demo(d, wt)
        sh(["git", "checkout", "--", "."], cwd=wt)
        sh(["git", "clean", "-fdq", "-e", ".seed_out"], cwd=wt)
        res[k] = {"original_exit": rc0, "patched_exit": rc1, "confirmed": rc0 == 0 and rc1 == 1, "patched_tail": out1.strip().splitlines()[-3:], "original_tail": out0.strip().splitlines()[-2:]}
    return res


def evaluate(pid: str, all_checks: bool) -> dict:
    res = {}
    SCRATCH = Path(f"/var/tmp/seed-eval-{pid}")
    for k, p in patches(pid):
        dst = SCRATCH / f"{pid}_{k}"
        if dst.exists():
            shutil.rmtree(dst)
        dst.parent.mkdir(parents=True, exist_ok=True)
        subprocess.run(["rsync", "-a", "--exclude", ".git", "--exclude", "target", "--exclude", "__pycache__", "/repo/", f"{dst}/"], check=True)
        rc, out = sh(["patch", "-p1", "-s", "-d", str(dst), "-i", str(p)])
        if rc != 0:
            res[k] = {"error": f"patch failed on /repo copy: {out[:200]}"}
            shutil.rmtree(dst, ignore_errors=True)
            continue
        props = [pid] + ([q for q in ALL if q != pid] if all_checks else [])
        r = {}
        for q in props:
            env = dict(os.environ, VERIF_REPO=str(dst), VERIF_EVIDENCE_DIR=str(dst.parent / (dst.name + "_ev")))
            rc, out = sh([str(VERIF / "check"), q], env=env)
            lines = [ln for ln in out.splitlines() if ln.strip().startswith("finding rule")]
            r[q] = {"exit": rc, "findings": [ln.strip()[:300] for ln in lines[:4]], "tail": out.strip().splitlines()[-1][:200] if out.strip() else ""}
            if q == pid and rc == 1 and not all_checks:
                break
        res[k] = r
        shutil.rmtree(dst, ignore_errors=True)
        shutil.rmtree(dst.parent / (dst.name + "_ev"), ignore_errors=True)
    shutil.rmtree(SCRATCH, ignore_errors=True)
    return res


def keep(pid: str) -> None:
    for k, p in patches(pid):
        d = demo_of(pid, k)
        m = SEED / pid / ".seed_out" / f"meta{k}.json"
        dst = VERIF / "seeded" / pid / str(k + OFFSET)
        dst.mkdir(parents=True, exist_ok=True)
        shutil.copy(p, dst / "patch.diff")
        if d:
            shutil.copy(d, dst / f"demo{d.suffix}")
        meta = json.loads(m.read_text()) if m.exists() else {}
        old = json.loads((dst / "meta.json").read_text()) if (dst / "meta.json").exists() else {}
        old.update({"property": pid, "agent_meta": meta})
        (dst / "meta.json").write_text(json.dumps(old, indent=1))


if __name__ == "__main__":
    cmd, pid = sys.argv[1], sys.argv[2]
    if cmd == "confirm":
        print(json.dumps(confirm(pid), indent=1))
    elif cmd == "eval":
        print(json.dumps(evaluate(pid, "--all" in sys.argv), indent=1))
    elif cmd == "keep":
        keep(pid)
