#!/usr/bin/env python3
"""Dev-time: run every check against every kept seeded patch; writes /var/tmp/seed-matrix.json and updates seeded/*/*/meta.json."""
from __future__ import annotations
import json, os, shutil, subprocess, sys
from concurrent.futures import ThreadPoolExecutor
from pathlib import Path
VERIF = Path(__file__).resolve().parent.parent
ALL = [f"C{i:02d}" for i in range(1, 19)]
SCR = Path(f"/var/tmp/seed-matrix-{os.getpid()}")   # per process: two matrices must not remove each other's copies

def one(meta: Path) -> tuple[str, dict]:
    d = meta.parent
    sid = f"{d.parent.name}/{d.name}"
    dst = SCR / sid.replace("/", "_")
    if dst.exists(): shutil.rmtree(dst)
    dst.parent.mkdir(parents=True, exist_ok=True)
    subprocess.run(["rsync", "-a", "--exclude", ".git", "--exclude", "__pycache__", "/repo/", f"{dst}/"], check=True)
    r = subprocess.run(["patch", "-p1", "-s", "-d", str(dst), "-i", str(d / "patch.diff")], capture_output=True, text=True)
    res = {}
    if r.returncode != 0:
        return sid, {"error": r.stdout + r.stderr}
    arg = sys.argv[1] if len(sys.argv) > 1 else "all"
    only = [d.parent.name] if arg == "own" else (ALL if arg == "all" else arg.split(","))
    for q in only:
        env = dict(os.environ, VERIF_REPO=str(dst), VERIF_EVIDENCE_DIR=str(dst) + "_ev")
        try:
            p = subprocess.run([str(VERIF / "check"), q], capture_output=True, text=True, env=env, timeout=int(os.environ.get("CHECK_TIMEOUT", "900")))
        except subprocess.TimeoutExpired:
            res[q] = {"exit": "timeout", "rules": [], "tail": "check did not finish within the time limit"}
            continue
        rules = sorted({ln.split("rule=")[1].split(" ")[0] for ln in p.stdout.splitlines() if "finding rule=" in ln})
        res[q] = {"exit": p.returncode, "rules": rules, "tail": (p.stdout.strip().splitlines() or [""])[-1][:160]}
    shutil.rmtree(dst, ignore_errors=True); shutil.rmtree(str(dst) + "_ev", ignore_errors=True)
    return sid, res

def main() -> None:
    metas = sorted((VERIF / "seeded").glob("*/*/meta.json"))
    ids = [x for x in os.environ.get("ONLY_IDS", "").split(",") if x]
    if ids:
        metas = [m for m in metas if f"{m.parent.parent.name}/{m.parent.name}" in ids]
    out = {}
    with ThreadPoolExecutor(max_workers=int(os.environ.get("JOBS", "3"))) as ex:
        for sid, res in ex.map(one, metas):
            out[sid] = res
            print(sid, {q: v["exit"] for q, v in res.items() if isinstance(v, dict) and v.get("exit")}, flush=True)
            Path(os.environ.get("MATRIX_OUT", "/var/tmp/seed-matrix.json")).write_text(json.dumps(out, indent=1))
    shutil.rmtree(SCR, ignore_errors=True)

if __name__ == "__main__":
    main()
