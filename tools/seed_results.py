#!/usr/bin/env python3
"""Dev-time: turn matrix JSON files (tools/seed_matrix.py) into seeded/RESULTS.md and per-change meta.json fields.
usage: seed_results.py own.json [others.json ...]   (later files add results for more checks)"""
from __future__ import annotations
import json, sys
from pathlib import Path
VERIF = Path(__file__).resolve().parent.parent

def main() -> None:
    res: dict[str, dict] = {}
    for f in sys.argv[1:]:
        for sid, r in json.loads(Path(f).read_text()).items():
            res.setdefault(sid, {}).update({k: v for k, v in r.items() if isinstance(v, dict)})
    lines = ["# Seeded changes and the checks that report them", "",
             "Every row is one change written by a fresh sub-agent that was given only the property text and a scratch worktree.",
             "`own` = result of the property's own quick check on /repo + patch; `also` = other checks that report it (only run where listed).",
             "Each change was confirmed by running its demonstration in the worktree: exit 1 patched, 0 original.", "",
             "| change | what it does (agent's summary) | needs to manifest | own check | rules | also reported by |", "|---|---|---|---|---|---|"]
    missed = []
    for meta in sorted((VERIF / "seeded").glob("*/*/meta.json"), key=lambda p: (p.parent.parent.name, int(p.parent.name))):
        sid = f"{meta.parent.parent.name}/{meta.parent.name}"
        m = json.loads(meta.read_text())
        a = m.get("agent_meta", {})
        r = res.get(sid, {})
        pid = meta.parent.parent.name
        own = r.get(pid, {})
        det = sorted(q for q, v in r.items() if v.get("exit") == 1)
        m["property"] = pid
        m["what_it_needs_to_manifest"] = a.get("needs_to_manifest", "")
        m["confirmed_by"] = "demo script run in the sub-agent's worktree by tools/seed_eval.py confirm: exit 1 on the patched tree, exit 0 on the original; patch applies to /repo with `git -C /repo apply`"
        m["expected_detected_by"] = det
        m["own_check_exit"] = own.get("exit")
        m["rules_reported"] = {q: v.get("rules", []) for q, v in r.items() if v.get("exit") == 1}
        meta.write_text(json.dumps(m, indent=1))
        summ = (a.get("summary") or a.get("mechanism") or "").replace("|", "/").replace("\n", " ")[:220]
        need = (a.get("needs_to_manifest") or "").replace("|", "/").replace("\n", " ")[:160]
        ownres = {1: "**reported**", 0: "silent", 2: "analysis-error", None: "not run"}.get(own.get("exit"), str(own.get("exit")))
        rules = ", ".join(own.get("rules", [])[:3])
        also = ", ".join(q for q in det if q != pid)
        lines.append(f"| {sid} | {summ} | {need} | {ownres} | {rules} | {also} |")
        if not det:
            missed.append(sid)
    total = len(list((VERIF / "seeded").glob("*/*/meta.json")))
    lines += ["", f"Total {total} changes; reported by the property's own check: {sum(1 for s, r in res.items() if r.get(s.split('/')[0], {}).get('exit') == 1)}; reported by no check: {len(missed)} {missed}", ""]
    (VERIF / "seeded" / "RESULTS.md").write_text("\n".join(lines))
    print(lines[-2])

if __name__ == "__main__":
    main()
